#!/bin/sh
# Must-fail corpus: every mutant must make its property's check exit 1 and name the expected obligation.
# Each mutant is applied to a scratch worktree of /repo (removed afterwards); /repo itself is never touched.
# usage: selftest/run.sh [name-substring]
cd "$(dirname "$0")/.."
export GOFLAGS=-mod=mod GOPROXY=off GOSUMDB=off GOTOOLCHAIN=local
[ -x bin/govc ] || ./setup.sh >/dev/null
fail=0; n=0
for p in selftest/mutants/*.patch; do
  name=$(basename "$p" .patch)
  case "$name" in *"$1"*) ;; *) continue;; esac
  prop=${name%%-*}
  expect=$(python3 -c "import json,sys;print(json.load(open('selftest/expect.json')).get('$name',{}).get('obligation',''))")
  wt=$(mktemp -d /tmp/govc-mutant-XXXXXX)
  rmdir "$wt"; git -C /repo worktree add -q --detach "$wt" HEAD || { echo "worktree failed"; exit 2; }
  # carry over uncommitted contract files
  (cd /repo && git ls-files -m -o --exclude-standard | while read f; do mkdir -p "$wt/$(dirname "$f")"; cp "$f" "$wt/$f"; done)
  if ! git -C "$wt" apply "$(pwd)/$p"; then echo "MUTANT $name: patch does not apply"; fail=1; git -C /repo worktree remove --force "$wt"; continue; fi
  if ! (cd "$wt" && go build ./... 2>/dev/null); then echo "MUTANT $name: does not compile"; fail=1; git -C /repo worktree remove --force "$wt"; continue; fi
  out=$(./bin/govc check -prop "$prop" -tier quick -repo "$wt" -verif "$(pwd)" -evidence "$wt.evidence.json" 2>&1); code=$?
  n=$((n+1))
  if [ $code -eq 1 ] && echo "$out" | grep -q "VIOLATION property=$prop" && { [ -z "$expect" ] || echo "$out" | grep -Eq "obligation .*$expect"; }; then
    echo "MUTANT $name: caught ($(echo "$out" | grep -c '^VIOLATION') violations; $(echo "$out" | grep '^VIOLATION' | grep -vc no-failing-input-found) reproduced)"
  else
    echo "MUTANT $name: MISSED (exit $code, expected obligation /$expect/)"; echo "$out" | tail -5; fail=1
  fi
  git -C /repo worktree remove --force "$wt"; rm -f "$wt.evidence.json"
done
echo "selftest: $n mutants run, fail=$fail"
exit $fail
