#!/bin/sh
# Build the verifier (govc) offline from /verif/govc. No network, nothing under /tmp is kept.
set -e
cd "$(dirname "$0")"
export GOFLAGS=-mod=mod GOPROXY=off GOSUMDB=off GOTOOLCHAIN=local
mkdir -p bin evidence
(cd govc && go build -o ../bin/govc .)
echo "govc built: $(pwd)/bin/govc"
