#!/usr/bin/env python3
"""Regenerates /verif/MANIFEST.json from the claims table below (single source of truth for what is claimed)."""
import json, subprocess

TECH = "contract-based deductive verification: weakest-precondition VCs from go/ssa against //@ contracts, discharged by z3/cvc5 (unsat only)"

CLAIMS = {
 "C16": dict(
  text="Proof (all inputs, unbounded): every protocol parser (41 functions) is free of index/slice/nil panics, returns a usable result whenever it returns no error, and terminates, for every argument vector with at least the command name; every command handler (dmap, pubsub, routing table, olric) and the RESP mux are swept for bounds, nil dereference, failed type assertions, division by zero, explicit panics and loop termination under a stated service-wiring assumption; request-derived partition ids are checked against PartitionByID's precondition at every handler call site.",
  note="Assumes redcon delivers len(cmd.Args) >= 1, service receivers are fully wired (non-nil fields, depth 2), partition tables are complete and sized by PartitionCount, strconv/fmt/msgpack externs do not panic; deep callees without contracts (DMap.put, Get, ...) are assumed not to panic and to terminate (three are trusted for result shape); bytes below the command layer and resource exhaustion are not decided.",
  ref="DESIGN.md §4 C16, §9"),
 "C11": dict(
  text="Proof of the storage engine's map semantics per operation, for all table layouts and all inputs: table.New/Put/PutRaw/Get/GetRaw/GetKey/GetTTL/GetLastAccess/Delete/UpdateTTL/Check/Stats/Reset are proved against a representation invariant (offset index = live offsets, entries non-overlapping below the write pointer, inuse+garbage=offset) and functional postconditions (stored entry read back, all other keys and their bytes unchanged, frame conditions); kvstore.Check/Get/GetRaw/GetTTL/GetLastAccess/GetKey/Delete/UpdateTTL/deleteStale/Put/PutRaw are proved against the store invariant (tables separate, every key in at most one table) over the abstract table interface. The induction over operation sequences is the standard data-abstraction meta-argument.",
  note="makeTable is trusted (slice surgery not verified); re-establishing the 13-conjunct store invariant across kvstore.Put/PutRaw's retry loop is attempted but not claimed (see specs/unclaimed.json); compaction, transfer (Export/Import/Drop) and Range are not yet under contract; unsigned subtraction in table.Delete assumed not to wrap (sum invariant); roaring bitmap, time.Now, binary.BigEndian modelled by assumed contracts.",
  ref="DESIGN.md §4 C11, §9"),
 "C17": dict(
  text="Proof: entry.Encode lays out exactly (key length, key, ttl, timestamp, lastAccess, value length, value) and entry.Decode reads back exactly those fields for every well-formed buffer (machine-checked round-trip lemma); table.Put rejects keys of 256+ bytes with ErrKeyTooLarge and otherwise stores key/value/ttl/timestamp byte-exactly without touching any other entry; table.Get/GetKey return exactly the stored key and value bytes; kvstore.Put/PutRaw return ErrEntryTooLarge exactly for entries that can never fit a table, terminate, and otherwise store the entry in the active table and nowhere else.",
  note="resp codec (Encode/Scan) and the typed getters of GetResponse are not yet under contract; replication/migration transport (msgpack, go-redis) assumed faithful; byte packing modelled by uninterpreted pack/byte functions with the round-trip axiom.",
  ref="DESIGN.md §4 C17, §9"),
 "C18": dict(
  text="Proof of the ownership contract at the storage layer: the value handed out by table.Get (and therefore kvstore.Get) and the bytes returned by GetRaw/Encode are freshly allocated (not reachable from table memory), table.Put/PutRaw only copy from their arguments (the table never retains the caller's buffer, required separate from table memory).",
  note="Decided at table/kvstore/entry level only; the dmap and client layers (getOnCluster, DMap.Put buffer handling, GetResponse) are not yet under contract; util.BytesToString aliasing modelled as content-preserving.",
  ref="DESIGN.md §4 C18, §9"),
 "C20": dict(
  text="Proof of the accounting ingredients: every superseding write or delete in a table moves exactly the old entry's bytes from inuse to garbage (Put, PutRaw after the fix, Delete), inuse+garbage=offset is invariant, Reset zeroes a table, Stats reports the fields; kvstore.Put/PutRaw delete the superseded version from older tables so that it is accounted as garbage there.",
  note="Compaction progress (evictTable/Compaction/isCompactionOK), makeTable's reuse of recycled tables and the dmap compaction workers are not yet under contract; the global growth bound is not decided by this technique (see DESIGN.md).",
  ref="DESIGN.md §4 C20, §9"),
 "C05": dict(
  text="Proof of the quorum decisions, function by function and for all owner lists, answers and configurations: syncPutOnCluster acknowledges a write iff (replica commands delivered and answered without error) + (local copy stored) >= WriteQuorum, returns ErrWriteQuorum otherwise, and an unreachable backup owner alone never fails it (loop invariant over a ghost acknowledgement counter); getOnCluster returns a value only when at least ReadQuorum non-nil copies were gathered and answers ErrReadQuorum when too few answers or too few copies exist; RoutingTable.CheckMemberCountQuorum is exact; Olric.isOperable/preconditionFunc refuse below the member-count quorum; server.Handler.ServeRESP invokes the registered handler iff the command is the routing update, no precondition is set, or the precondition held (and not at all otherwise); Service.NewDMap refuses below the quorum and creates nothing.",
  note="The network is not modelled: go-redis Process/Err carry assumed contracts (outcome of a command is an unknown function of the command object; ghost net_acks counts delivered-and-acknowledged commands); lookupOnOwners/lookupOnReplicas/readRepair/asyncPutOnCluster/CheckBootstrap are trusted for shape only; handler and precondition function values carry assumed funcfield contracts; concurrency (interleavings of members) is not explored; async replication mode is not decided.",
  ref="DESIGN.md §4 C05, §9"),
 "C06": dict(
  text="Proof: the comparison closure of sortVersions orders by write timestamp, newest first (closure verified against its own contract); sortVersions and sanitizeAndSortVersions return the non-nil copies ordered newest first and no gathered copy is newer than the first one (loop invariants, sort.Slice modelled as a permutation ordered by the closure's contract); getOnCluster returns the newest of all gathered copies and hands read repair exactly that winner together with ALL gathered versions (ghost record of readRepair's arguments); lookupOnOwners asks every previous owner of the partition (ghost lookup counter, loop invariant); fragmentMergeFunction keeps the newer of the stored and the incoming entry (stored timestamp = maximum, value/expiry of that copy, other keys untouched), which makes merging order-independent and idempotent.",
  note="sort.Slice is an assumed model (permutation + ordering by the verified less contract); readRepair's own effect on the other members, lookupOnReplicas, lookupOnPreviousOwner and storage.Import's iteration are trusted/assumed; what remote members answer is not modelled; ties keep either copy.",
  ref="DESIGN.md §4 C06, §9"),
 "C09": dict(
  text="Proof over an explicit ghost clock (every time.Now() reads it, monotone): isKeyExpired(ttl) is exactly ttl != 0 && now/1e6 >= ttl; prepareTTL yields the documented expiry for EX/PX/EXAT/PXAT/default timeout/none; checkPutConditions treats a dead key as absent for NX and as missing for XX and Expire; putEntryOnFragment replaces the entry, or with OnlyUpdateTTL changes only expiry and timestamp of an existing key; putOnCluster (single-copy path) stores value and an expiry between ttlFor(clock at call) and ttlFor(clock at return), clears the expiry for a plain Put, keeps the value for Expire, and refuses NX on a live key / XX and Expire on a dead or missing key without changing anything; getOnCluster never returns an entry that was already dead when the call started; the storage engine's GetTTL/UpdateTTL are proved at table and kvstore level.",
  note="The engine is seen through assumed abstract contracts on storage.Engine (specs/engine.vc; kvstore is verified separately against its own vocabulary, the refinement between the two is argued, not machine-checked); durations are assumed non-negative and below 2^62 ns; atomicIncrDecr hands the remaining life time of the value it read to the write (PX + clock reading == ttl, ms resolution); GetPut, the eviction worker and the replica read path are not yet under contract; wall-clock is the ghost clock (no skew).",
  ref="DESIGN.md §4 C09, §9"),
 "C15": dict(
  text="Proof at the two translation points of the forwarding path: writePutCommand sends an Expire as DM.PEXPIRE and everything else as DM.PUT carrying the NX/XX condition, the first expiry form and the payload; putCommandHandler decodes every option of the parsed command into the PutConfig in every combination (condition together with an expiry form), with exact millisecond and (real-arithmetic) second conversions; deleteKeys processes every owner group before reporting success and reports the number of keys named; delCommandHandler serves DM.DEL through deleteKeys (ghost routing counter); the cluster client's writePutCommand translates the option set exactly like a forwarding member; the pipeline's addCommand hands back the (partition, index) address of exactly the command it queued, in the key's partition.",
  note="The wire itself (go-redis serialisation, redcon parsing, strconv) is outside the verifier's reach: Put.Command/PExpire.Command are trusted for the command kind; ParsePutCommand's token loop, the pipeline's Exec/result mapping and the other operations of the cluster client are not yet under contract; deleteKey is trusted; floating point is treated as real arithmetic.",
  ref="DESIGN.md §4 C15, §9"),
 "C10": dict(
  text="Proof of the inductive step of the key-count bound and of the idleness direction: evictKeyWithLRU samples between 1 and LRUSamples present keys whenever the fragment is not empty (callback iteration modelled as a loop over the literal's body, so a Put never fails for lack of a victim), orders them by last access (sort.Slice ordered by the verified less contract) and evicts the least recently used of the samples, removing exactly one key and touching nothing else; setLRUEvictionStats leaves a fragment that was within its share max(1, MaxKeys/owned) strictly below it (and never calls eviction on an empty fragment); putOnCluster (single-copy path) therefore keeps the fragment within its share after every Put, and the key just written is present; isKeyIdleOnFragment reports idle only when a full idle window has elapsed since the last access and does report it once the window has elapsed.",
  note="The byte bound (MaxInuse with equally sized entries) is not decided (needs the engine's size accounting at the abstract level); stable membership is assumed (ownedPartitionCount constant across the call); deleteOnCluster is trusted for its effect on the local fragment; the background eviction worker (scanFragmentForEviction) and 'eventually disappears' (liveness) are not decided; storage.Engine.Range/Stats are assumed abstract contracts.",
  ref="DESIGN.md §4 C10, §9"),
 "C12": dict(
  text="Proof of the store-level scan cursor: findCoefficient returns the smallest coefficient present that is greater than the given one and an error iff none is (map iteration + sort.Slice ordered by the verified less contract + scan loop, with invariants); one step of KVStore.Scan/ScanRegexMatch (scanCommon) hands back a cursor that addresses an existing table, never jumps over a table that has not been scanned (for every layout of coefficients with holes), never moves backwards, and reports the end only when no later table exists; unsigned cursor arithmetic is exact (no wrap) for table sizes up to 2^32 and coefficients below 2^30. Inside one table, Table.Scan is proved against a model of the roaring-bitmap iterator (ascending traversal of the live-offset set): offsets at or after the cursor are taken in ascending order, the cursor handed back is one past a live offset the callback accepted or 0 only when no offset is left, never behind the cursor given and always inside the table, and the table invariant is preserved.",
  note="Table.get is trusted inside the scan loop (its effect is proved where it is inlined in Table.Get); ScanRegexMatch is trusted for its cursor range; the roaring iterator, the partition-level iterator of DMap.Scan and the cluster iterator are assumed / not under contract; a callback that stops at the very first entry of a table makes Table.Scan return 0 ('finished') - observed, callers here never do that; concurrent writers during a scan are not modelled.",
  ref="DESIGN.md §4 C12, §9"),
 "C14": dict(
  text="Proof of the counting and matching obligations of PUBLISH: PubSub.Publish returns exactly the number of messages it wrote to subscriber connections (ghost delivery counter; both Ascend passes modelled as loops over the function literals, with invariants), writes a pmessage only for a pattern that matches the channel and a message only to entries of exactly this channel; publishInternalCommandHandler replies with the number of local deliveries; publishCommandHandler replies with local deliveries plus the sum of the counts reported by every other member (loop invariant over the member list).",
  note="The subscription tree is a ghost set: the ORDER in which btree.Ascend yields (which makes the first pass stop at the right place and visit every entry of the channel) is not modelled, so 'every matching subscriber receives it' is not decided, only 'nothing else is delivered and the count is right'; subscribe/unsubscribe bookkeeping, PUBSUB CHANNELS/NUMSUB/NUMPAT (distinct counting needs set cardinality, outside this encoding), ordering per publisher and concurrency are not decided; go-redis IntCmd.Result and redcon.Conn.WriteInt carry assumed contracts; fewer than 2^62 deliveries and 2^16 members are assumed.",
  ref="DESIGN.md §4 C14, §9"),
 "C19": dict(
  text="Proof of the member-local part of Destroy and of its non-interference: destroyLocalDMap removes the fragment of the named DMap from every primary partition and, with replicas configured, from every backup partition of this member (loop invariant over the partition ids, partition lookups checked against the table invariant), forgets the DMap, and changes no fragment of any other name in any partition; destroyFragmentOnPartition removes exactly that one name; getDMap is a plain lookup.",
  note="The fragments of a partition (a sync.Map) are modelled as a ghost set of names; loadFragment and wipeOutFragment are trusted for their effect on that set (closing and destroying the engine is not decided); destroyOnCluster (errgroup fan-out to every member) is outside the verifier's reach (goroutines), so 'every member is asked' is not decided; that different DMap names map to different fragment names relies on fmt.Sprintf being injective (assumed); operations other than Destroy are covered for non-interference only in so far as every fragment access goes through dm.fragmentName (by construction of loadFragment/loadOrCreateFragment).",
  ref="DESIGN.md §4 C19, §9"),
 "C04": dict(
  text="Proof of the replication hand-over for writes in sync mode: what syncPutOnCluster ships to every backup owner is the encoding of the very entry it stores on the primary (key, expiry, write timestamp, value - entry.encodes), also for Expire (the stored value with the new expiry); after a successful local write the primary holds exactly that entry; a DM.PUTENTRY payload is required to be a well-formed encoded entry at every place one is built; a backup owner (putOnReplicaFragment) stores, under the same hashed key, exactly the key, expiry, timestamp and value that the payload encodes. Together with the machine-checked encode/decode round trip (C17) a backup copy written by an acknowledged Put/Expire equals the primary copy.",
  note="The network is assumed to deliver the payload unchanged; Delete's fan-out to backups (errgroup goroutines), eviction, locks, GetPut/Incr (they reduce to Put), async mode and ordering between concurrent writers are not decided; storage.Engine.PutRaw is an assumed abstract contract (kvstore.PutRaw is verified at table level); the handler does not validate a payload received from the network (trusted peers).",
  ref="DESIGN.md §4 C04, §9"),
 "C08": dict(
  text="Proof of the per-call obligations of the lock: unlockKey deletes the lock entry only when the presented token equals the stored value, answers no-such-lock and changes nothing otherwise, and reports success only after the delete went through the owner-routing delete; leaseKey extends the expiry only for the stored token of a lock that has not expired (judged at a clock reading during the call), answers no-such-lock and changes nothing for a wrong token or an expired lock; Lock builds a conditional write (NX, never XX) whose value is the 16-byte token it returns and whose expiry is the timeout (PX) exactly when a timeout of at least a millisecond is given. Together with C09 (NX refuses a live key and treats an expired one as absent; PX yields expiry = clock + timeout) and C15 (NX and PX both survive forwarding and decoding) this is the sequential core of the lock.",
  note="Mutual exclusion over time, waiting until the deadline (tryLock's timer/select loop is trusted), automatic release 'no earlier than the timeout' as seen by other clients, and the member-local serialisation by locker.Locker are not decided (interleavings are not modelled); dm.Get, dm.Expire, tryLock, locker.Lock/Unlock are trusted; effects are observed through ghost counters (routed_deletes, lease_updates); deleteKeys' footprint is assumed, not proved.",
  ref="DESIGN.md §4 C08, §9"),
 "C13": dict(
  text="Proof of the per-call ingredients of routing agreement only: the coordinator a member computes is the first of the member list ordered by birth date, i.e. the oldest member it knows (GetCoordinator; the ordering closure of GetMembers is verified against its contract); a key's partition is hkey mod the partition count both on a member (PartitionIDByHKey / PartitionByHKey, checked against the partition-table invariant established by partitions.New) and in the cluster client (smartPick), and the client talks to the last listed primary owner of that partition (clientByPartID), which is the entry a member's Partition.Owner() returns.",
  note="Agreement of all members on one table after membership stabilises, validity and balance of the distribution (distributePrimaryCopies/distributeBackups do in-place slice surgery on member lists and call the external consistent-hash library and the network), removal of departed members and convergence are NOT decided: they are properties of a distributed protocol over time, not of single calls; GetMembers (memberlist) and Partition.Owner (atomic.Value) are trusted; verifyRoutingTable's validation of pushed tables is decided under C16.",
  ref="DESIGN.md §4 C13, §9"),
}

NA = {
 "C01": "per-key linearizability quantifies over concurrent histories of several clients and members; a function contract speaks about one call in one state, and this verifier has no model of goroutine interleavings or of several members (sync primitives are no-ops, the network is an assumed contract). The sequential ingredients it rests on are decided under other properties (C11 store semantics, C05 quorums, C09 expiry, C15 routing of options); the history-level statement itself is not expressible as a postcondition, invariant or lemma over those contracts, and no other technique is substituted.",
 "C02": "durability under loss of up to R-1 members quantifies over fault sequences between operations of several members; contracts decide 'acknowledge only after WriteQuorum copies' (claimed under C05) and what a backup stores (C04), but the statement about which acknowledged writes survive which crash sequence needs a model of several members over time, outside contract-based verification of single calls.",
 "C03": "rebalancing is a protocol between members driven by goroutines, timers and the network (fragment movers, ownership reports, deletion of stale copies); the per-call ingredients that are within reach are decided elsewhere (fragmentMergeFunction under C06, table export image under C11/C17, Import returning merge errors fixed earlier), but 'neither loses, duplicates nor resurrects keys' is a property of whole migration histories, not of one call.",
 "C07": "atomicity of Incr/Decr/GetPut across clients is an interleaving property: it needs the lock taken on the partition owner to serialise read-modify-write sequences of different members. The verifier treats sync primitives as no-ops and has no notion of two members; the one sequential obligation in reach (Incr/Decr keep the expiry) is decided under C09. Reading the code shows the lock is member-local (atomicIncrDecr/getPut lock dm.s.locker of the calling member), which this technique cannot turn into a failing obligation.",
 "C08": "mutual exclusion, lease expiry and fencing of the distributed lock are temporal properties over several clients; the lock is built from Put NX/PX and a token comparison, whose sequential semantics are decided under C09 and C15 (NX refuses a live key, treats an expired one as absent, options survive forwarding), but exclusion over time is not a postcondition of any single call.",
 "C13": "agreement of all members on a valid, balanced routing table is about convergence of a distributed protocol (coordinator election from the member list, push of the table, ownership reports); helpers are under contract (GetCoordinator returns the oldest member, partition-table invariants, verifyRoutingTable's validation under C16), but agreement and balance across members and over time are not expressible over these contracts; the consistent-hash library is external.",
}

NA_DEFAULT = "contract-decidable core not yet under contract in this tree (engine and storage layers first); no other technique substituted"

def main():
    props = [json.loads(l) for l in open('/verif/properties.jsonl')]
    hooks = subprocess.check_output(['git', '-C', '/repo', 'log', '--format=%h %s']).decode().splitlines()
    hook_commits = [l.split()[0] for l in hooks if l.split(' ', 1)[1].startswith('verif:')]
    checks = []
    for p in props:
        c = CLAIMS.get(p['id'])
        if not c:
            continue
        checks.append({
            "property_id": p['id'],
            "quick_cmd": f"./check {p['id']} quick",
            "thorough_cmd": f"./check {p['id']} thorough",
            "evidence_file": f"/verif/evidence/{p['id']}.json",
            "replay_cmd_template": "./check --replay {path}",
            "engine": "govc",
            "level_claimed": {"category": "proof", "text": c['text'], "design_ref": c['ref']},
            "level_note": c['note'],
            "technique": TECH,
        })
    na = [{"property_id": p['id'], "reason": NA.get(p['id'], NA_DEFAULT)} for p in props if p['id'] not in CLAIMS]
    m = {
        "version": 1,
        "setup_cmd": "./setup.sh",
        "hooks": {
            "guard": "verif",
            "enable": "contracts are comment-only files verif_contracts.go carrying //go:build verif; govc loads /repo with -tags verif (go build -tags verif compiles them to nothing)",
            "baseline_off_cmd": "cd /repo && GOFLAGS=-mod=mod GOPROXY=off GOSUMDB=off go test -json -vet=off -count=1 -timeout 25m ./...",
            "source_commits": hook_commits,
            "add_only": True,
        },
        "engines": [{
            "name": "govc", "path": "/verif/govc", "serves_properties": sorted(CLAIMS),
            "kind_free_text": "self-written deductive verifier for Go: go/packages + go/ssa front end, block-merge weakest-precondition VC generation against //@ contracts (requires/ensures/modifies/loop invariants/decreases/ghost state/opaque functions with frame axioms/lemmas), z3 5.1.0 primary with seed portfolio, cvc5 1.0 and z3 4.8.12 raced",
        }],
        "checks": checks,
        "not_applicable": na,
        "notes": "See DESIGN.md. Contracts: /repo/**/verif_contracts.go (tag verif) and /verif/specs/*.vc (assumed extern contracts). Fixed defects and open findings: /verif/known_findings.json. Obligations attempted but not claimed: /verif/specs/unclaimed.json.",
    }
    json.dump(m, open('/verif/MANIFEST.json', 'w'), indent=1)
    print("MANIFEST.json:", len(checks), "claimed,", len(na), "not applicable")

if __name__ == '__main__':
    main()
