#!/usr/bin/env python3
# validate MANIFEST.json and evidence files against the schemas (run with python3-vt)
import json,sys,glob
import jsonschema
m=json.load(open('/verif/MANIFEST.json'))
jsonschema.validate(m,json.load(open('/root/.vp/MANIFEST.schema.json')))
print('MANIFEST ok:',len(m['checks']),'checks,',len(m.get('not_applicable',[])),'n/a')
ids=set(json.loads(l)['id'] for l in open('/verif/properties.jsonl'))
claimed=set(c['property_id'] for c in m['checks']); na=set(x['property_id'] for x in m.get('not_applicable',[]))
assert claimed|na==ids and not (claimed&na),(ids-claimed-na,claimed&na)
es=json.load(open('/root/.vp/EVIDENCE.schema.json'))
for f in sorted(glob.glob('/verif/evidence/*.json')):
    ev=json.load(open(f)); jsonschema.validate(ev,es)
    c=ev['coverage']; print(f.split('/')[-1],ev['level'],c.get('obligations'),c.get('discharged'),'viol',ev.get('violations'))
