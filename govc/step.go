package main

// Instruction semantics.

import (
	"fmt"
	"go/token"
	"go/types"
	"math/big"
	"strings"

	"golang.org/x/tools/go/ssa"
)

func (fr *Frame) step(b *ssa.BasicBlock, instr ssa.Instruction, st *State, edgeCond map[[2]*ssa.BasicBlock]*Term) (*State, bool) {
	vc := fr.vc
	pos := vc.pos(instr.Pos())
	switch in := instr.(type) {
	case *ssa.DebugRef:
		return st, true
	case *ssa.Alloc:
		et := in.Type().(*types.Pointer).Elem()
		if !in.Heap {
			st.locals[in] = zeroVal(et)
			fr.regs[in] = &VPtr{Kind: PLocal, Alloc: in, Root: et}
			return st, true
		}
		fr.regs[in] = vc.allocObject(st, et, in.Comment)
		return st, true
	case *ssa.Store:
		et := in.Addr.Type().Underlying().(*types.Pointer).Elem()
		p := asPtr(fr.get(in.Addr), et)
		vc.nilCheck(st, p, pos, "store")
		vc.storePtr(st, p, et, fr.get(in.Val))
		return st, true
	case *ssa.UnOp:
		fr.regs[in] = fr.unop(in, st, pos)
		return st, true
	case *ssa.BinOp:
		fr.regs[in] = fr.binop(in.Op, in.X.Type(), fr.get(in.X), fr.get(in.Y), in.Type(), st, pos)
		return st, true
	case *ssa.FieldAddr:
		x := fr.get(in.X)
		st0 := in.X.Type().Underlying().(*types.Pointer).Elem()
		p := asPtr(x, st0)
		if p.Kind == PField || p.Kind == PCell {
			vc.nilCheck(st, p, pos, "field "+st0.Underlying().(*types.Struct).Field(in.Field).Name())
		}
		if p.Kind == PCell {
			p = &VPtr{Kind: PField, Base: p.Base, Root: st0}
		}
		fr.regs[in] = p.extend(in.Field)
		return st, true
	case *ssa.Field:
		x := fr.get(in.X)
		fr.regs[in] = x.(*VStruct).F[in.Field]
		return st, true
	case *ssa.IndexAddr:
		fr.regs[in] = fr.indexAddr(in, st, pos)
		return st, true
	case *ssa.Index:
		x := fr.get(in.X)
		idx := scalarOf(fr.get(in.Index), in.Index.Type())
		switch in.X.Type().Underlying().(type) {
		case *types.Basic: // string index
			s := scalarOf(x, in.X.Type())
			vc.oblige(st, "bounds", fr.name("idx@"+shortPos(pos)), pos, "string index in range", mkAnd(mkCmp("<=", mkInt(0), idx), mkCmp("<", idx, vc.strlen(s))), nil)
			r := mkApp("str.at", SInt, s, idx)
			vc.assume(st, mkAnd(mkCmp("<=", mkInt(0), r), mkCmp("<=", r, mkInt(255))))
			fr.regs[in] = &VS{r}
		default:
			panic(unsupported("index of array value"))
		}
		return st, true
	case *ssa.Slice:
		fr.regs[in] = fr.sliceOp(in, st, pos)
		return st, true
	case *ssa.MakeSlice:
		ln := scalarOf(fr.get(in.Len), in.Len.Type())
		cp := scalarOf(fr.get(in.Cap), in.Cap.Type())
		vc.oblige(st, "bounds", fr.name("makeslice@"+shortPos(pos)), pos, "make: 0 <= len <= cap (and below 2^62)", mkAnd(mkCmp("<=", mkInt(0), ln), mkCmp("<=", ln, cp), mkCmp("<=", cp, mkBig(pow2(62)))), nil)
		et := in.Type().Underlying().(*types.Slice).Elem()
		r := vc.newRef(st, "slice")
		vc.zeroElems(st, r, et)
		fr.regs[in] = &VSlice{Base: r, Off: mkInt(0), Len: ln, Cap: cp}
		return st, true
	case *ssa.MakeMap:
		mt := in.Type().Underlying().(*types.Map)
		r := vc.newRef(st, "map")
		vc.initMap(st, r, mt)
		fr.regs[in] = &VS{r}
		return st, true
	case *ssa.MakeChan:
		fr.regs[in] = &VS{vc.newRef(st, "chan")}
		return st, true
	case *ssa.MakeClosure:
		var binds []Val
		for _, bv := range in.Bindings {
			binds = append(binds, fr.get(bv))
		}
		fr.regs[in] = &VClosure{Fn: in.Fn.(*ssa.Function), Bind: binds}
		return st, true
	case *ssa.MakeInterface:
		fr.regs[in] = vc.makeInterface(st, in.X.Type(), fr.get(in.X))
		return st, true
	case *ssa.ChangeInterface:
		fr.regs[in] = fr.get(in.X)
		return st, true
	case *ssa.ChangeType:
		fr.regs[in] = fr.get(in.X)
		return st, true
	case *ssa.Convert:
		fr.regs[in] = fr.convert(in, st, pos)
		return st, true
	case *ssa.TypeAssert:
		fr.regs[in] = fr.typeAssert(in, st, pos)
		return st, true
	case *ssa.Extract:
		t := fr.get(in.Tuple)
		fr.regs[in] = t.(*VTuple).E[in.Index]
		return st, true
	case *ssa.Lookup:
		fr.regs[in] = fr.lookup(in, st, pos)
		return st, true
	case *ssa.MapUpdate:
		mt := in.Map.Type().Underlying().(*types.Map)
		m := scalarOf(fr.get(in.Map), in.Map.Type())
		vc.oblige(st, "nil", fr.name("nilmap@"+shortPos(pos)), pos, "assignment to entry in nil map", mkNeq(m, tNull), nil)
		k := vc.keyTerm(fr.get(in.Key), mt.Key())
		vc.mapStore(st, m, mt, k, fr.get(in.Value))
		return st, true
	case *ssa.Range:
		switch mt := in.X.Type().Underlying().(type) {
		case *types.Map:
			m := scalarOf(fr.get(in.X), in.X.Type())
			key := fmt.Sprintf("$visited!%d", vc.n)
			vc.n++
			ks := leafSort(mt.Key())
			st.heap[key] = mkConstArr(SArr(ks, SBool), tFalse)
			vc.famSort[key] = SArr(ks, SBool)
			fr.regs[in] = &VIter{Map: m, MapType: mt, Visited: key}
		default:
			panic(unsupported("range over string"))
		}
		return st, true
	case *ssa.Next:
		it, ok := fr.get(in.Iter).(*VIter)
		if !ok {
			panic(unsupported("next on non-map iterator"))
		}
		fr.regs[in] = vc.mapNext(st, it)
		return st, true
	case *ssa.Call:
		res, nst, alive := fr.call(in, &in.Call, st, pos)
		if !alive {
			return nil, false
		}
		if res != nil {
			fr.regs[in] = res
		}
		return nst, true
	case *ssa.Defer:
		// arm the defer
		st.heap[fr.armed[in]] = tTrue
		return st, true
	case *ssa.Go:
		vc.note("goroutine body not composed: go " + in.Call.Value.Name() + " in " + fr.fn.String())
		return st, true
	case *ssa.RunDefers:
		return fr.runDefers(st, pos), true
	case *ssa.Send:
		return st, true
	case *ssa.Select:
		// nondeterministic choice; receives are havoc
		var elems []Val
		idx := vc.fresh("select$idx", SInt)
		n := len(in.States)
		lo := 0
		if !in.Blocking {
			lo = -1
		}
		vc.assume(st, mkAnd(mkCmp("<=", mkInt(int64(lo)), idx), mkCmp("<", idx, mkInt(int64(n)))))
		elems = append(elems, &VS{idx}, &VS{vc.fresh("select$ok", SBool)})
		for _, s := range in.States {
			if s.Dir == types.RecvOnly {
				et := s.Chan.Type().Underlying().(*types.Chan).Elem()
				elems = append(elems, vc.havocVal(st, et, "recv"))
			}
		}
		fr.regs[in] = &VTuple{E: elems}
		return st, true
	case *ssa.If:
		c := scalarOf(fr.get(in.Cond), in.Cond.Type())
		edgeCond[[2]*ssa.BasicBlock{b, b.Succs[0]}] = c
		edgeCond[[2]*ssa.BasicBlock{b, b.Succs[1]}] = mkNot(c)
		if b.Succs[0] == b.Succs[1] {
			edgeCond[[2]*ssa.BasicBlock{b, b.Succs[0]}] = tTrue
		}
		return st, true
	case *ssa.Jump:
		return st, true
	case *ssa.Return:
		var rs []Val
		for _, r := range in.Results {
			rs = append(rs, fr.get(r))
		}
		fr.exits = append(fr.exits, frameExit{st: st, results: rs, block: in.Block()})
		return nil, false
	case *ssa.Panic:
		vc.oblige(st, "panic", fr.name("panic@"+shortPos(pos)), pos, "explicit panic reachable", tFalse, nil)
		return nil, false
	case *ssa.SliceToArrayPointer:
		panic(unsupported("slice to array pointer"))
	}
	panic(unsupported(fmt.Sprintf("instruction %T", instr)))
}

func shortPos(pos string) string {
	if i := strings.LastIndex(pos, "/"); i >= 0 {
		return pos[i+1:]
	}
	return pos
}

func (vc *VC) strlen(s *Term) *Term { return mkApp("strlen", SInt, s) }

// allocObject allocates a zeroed heap object of type t and returns a pointer value.
func (vc *VC) allocObject(st *State, t types.Type, hint string) Val {
	if hint == "" {
		hint = "obj"
	}
	hint = strings.Map(func(r rune) rune {
		if r >= 'a' && r <= 'z' || r >= 'A' && r <= 'Z' || r >= '0' && r <= '9' {
			return r
		}
		return '_'
	}, hint)
	r := vc.newRef(st, hint)
	switch u := t.Underlying().(type) {
	case *types.Array:
		vc.zeroElems(st, r, u.Elem())
		return &VS{r}
	}
	var p *VPtr
	if _, ok := isStruct(t); ok {
		p = &VPtr{Kind: PField, Base: r, Root: t}
	} else {
		p = &VPtr{Kind: PCell, Base: r, Root: t}
	}
	vc.storePtr(st, p, t, zeroVal(t))
	vc.assumeDynType(st, r, types.NewPointer(t))
	return &VS{r}
}

func (vc *VC) zeroElems(st *State, r *Term, et types.Type) {
	defer vc.withTouch(r)()
	for _, l := range leaves(et) {
		key := "E$" + typeKey(et) + l.Path
		s := SArr(SRef, SArr(SInt, l.Sort))
		arr := vc.famGet(st, key, s)
		vc.famSet(st, key, mkStore(arr, r, mkConstArr(SArr(SInt, l.Sort), zeroTerm(l.Sort))))
	}
}

func (fr *Frame) unop(in *ssa.UnOp, st *State, pos string) Val {
	vc := fr.vc
	x := fr.get(in.X)
	switch in.Op {
	case token.MUL:
		et := in.X.Type().Underlying().(*types.Pointer).Elem()
		p := asPtr(x, et)
		vc.nilCheck(st, p, pos, "load")
		if g := p.Glob; p.Kind == PGlobal && g != nil {
			if t := vc.eng.sentinel(g); t != nil {
				vc.sentUse[t.Op] = true
				return &VS{t}
			}
			if len(p.Path) == 0 && leafSort(et) == SRef && vc.eng.initOnceNonNil(g) {
				v := vc.loadPtr(st, p, et)
				vc.assume(st, mkNeq(scalarOf(v, et), tNull))
				vc.note("package-level reference variables initialised once by a constructor call or composite literal and never reassigned are non-nil")
				return v
			}
		}
		return vc.loadPtr(st, p, et)
	case token.SUB:
		t := scalarOf(x, in.X.Type())
		if t.Sort == SReal {
			return &VS{mkApp("-", SReal, t)}
		}
		return &VS{wrap1(mkNeg(t), in.Type())}
	case token.NOT:
		return &VS{mkNot(scalarOf(x, in.X.Type()))}
	case token.XOR:
		t := scalarOf(x, in.X.Type())
		lo, hi, _ := intRange(in.Type())
		if lo != nil && lo.Sign() == 0 {
			return &VS{mkSub(mkBig(hi), t)}
		}
		return &VS{mkSub(mkNeg(t), mkInt(1))}
	case token.ARROW:
		et := in.X.Type().Underlying().(*types.Chan).Elem()
		v := vc.havocVal(st, et, "recv")
		if in.CommaOk {
			return &VTuple{E: []Val{v, &VS{vc.fresh("recvok", SBool)}}}
		}
		return v
	}
	panic(unsupported("unop " + in.Op.String()))
}

func isUnsigned(t types.Type) bool {
	b, ok := t.Underlying().(*types.Basic)
	return ok && b.Info()&types.IsUnsigned != 0
}

func (fr *Frame) binop(op token.Token, xt types.Type, xv, yv Val, rt types.Type, st *State, pos string) Val {
	vc := fr.vc
	// composite comparisons
	switch xv.(type) {
	case *VSlice:
		// comparison with nil only
		s := xv.(*VSlice)
		if op == token.EQL {
			return &VS{mkEq(s.Base, tNull)}
		}
		if op == token.NEQ {
			return &VS{mkNeq(s.Base, tNull)}
		}
		panic(unsupported("slice binop"))
	case *VStruct:
		var eqs []*Term
		var ys []*Term
		walkVal(xt, "", yv, func(l Leaf, tm *Term) { ys = append(ys, tm) })
		i := 0
		walkVal(xt, "", xv, func(l Leaf, tm *Term) { eqs = append(eqs, mkEq(tm, ys[i])); i++ })
		if op == token.EQL {
			return &VS{mkAnd(eqs...)}
		}
		return &VS{mkNot(mkAnd(eqs...))}
	}
	if _, ok := yv.(*VSlice); ok {
		s := yv.(*VSlice)
		if op == token.EQL {
			return &VS{mkEq(s.Base, tNull)}
		}
		return &VS{mkNeq(s.Base, tNull)}
	}
	x := scalarOf(xv, xt)
	y := scalarOf(yv, xt)
	switch x.Sort {
	case SBool:
		switch op {
		case token.EQL:
			return &VS{mkEq(x, y)}
		case token.NEQ:
			return &VS{mkNeq(x, y)}
		case token.AND, token.LAND:
			return &VS{mkAnd(x, y)}
		case token.OR, token.LOR:
			return &VS{mkOr(x, y)}
		}
	case SRef:
		switch op {
		case token.EQL:
			return &VS{mkEq(x, y)}
		case token.NEQ:
			return &VS{mkNeq(x, y)}
		}
	case SStr:
		switch op {
		case token.EQL:
			return &VS{mkEq(x, y)}
		case token.NEQ:
			return &VS{mkNeq(x, y)}
		case token.ADD:
			return &VS{vc.strCat(st, x, y)}
		case token.LSS, token.LEQ, token.GTR, token.GEQ:
			return &VS{mkApp("str.cmp"+op.String(), SBool, x, y)}
		}
	case SReal:
		switch op {
		case token.ADD:
			return &VS{mkApp("+", SReal, x, y)}
		case token.SUB:
			return &VS{mkApp("-", SReal, x, y)}
		case token.MUL:
			return &VS{mkApp("*", SReal, x, y)}
		case token.QUO:
			return &VS{mkApp("/", SReal, x, y)}
		case token.EQL:
			return &VS{mkEq(x, y)}
		case token.NEQ:
			return &VS{mkNeq(x, y)}
		case token.LSS:
			return &VS{mkCmp("<", x, y)}
		case token.LEQ:
			return &VS{mkCmp("<=", x, y)}
		case token.GTR:
			return &VS{mkCmp(">", x, y)}
		case token.GEQ:
			return &VS{mkCmp(">=", x, y)}
		}
	case SInt:
		switch op {
		case token.EQL:
			return &VS{mkEq(x, y)}
		case token.NEQ:
			return &VS{mkNeq(x, y)}
		case token.LSS:
			return &VS{mkCmp("<", x, y)}
		case token.LEQ:
			return &VS{mkCmp("<=", x, y)}
		case token.GTR:
			return &VS{mkCmp(">", x, y)}
		case token.GEQ:
			return &VS{mkCmp(">=", x, y)}
		case token.ADD:
			return &VS{vc.nameIfBig(wrap1(mkAdd(x, y), rt))}
		case token.SUB:
			if vc.fc != nil && vc.fc.Flags["underflow"] != "" && isUnsigned(rt) && fr.top {
				vc.oblige(st, "underflow", fr.name("underflow@"+shortPos(pos)), pos, "unsigned subtraction does not wrap", mkCmp(">=", x, y), nil)
			}
			if vc.fc != nil && vc.fc.Flags["nounderflow"] != "" && isUnsigned(rt) && fr.top {
				vc.assume(st, mkCmp(">=", x, y))
				vc.note("unsigned subtraction assumed not to wrap in " + vc.root.String() + " (accounting sum invariant not proved: no induction over the map in the solver)")
				return &VS{vc.nameIfBig(mkSub(x, y))}
			}
			return &VS{vc.nameIfBig(wrap1(mkSub(x, y), rt))}
		case token.MUL:
			if x.Kind == TInt || y.Kind == TInt {
				return &VS{vc.nameIfBig(wrapTo(mkMul(x, y), rt))}
			}
			vc.note("non-linear multiplication in " + fr.fn.String())
			return &VS{vc.nameIfBig(wrapTo(mkApp("*", SInt, x, y), rt))}
		case token.QUO, token.REM:
			vc.oblige(st, "divzero", fr.name("divzero@"+shortPos(pos)), pos, "division by zero", mkNeq(y, mkInt(0)), nil)
			var q, r *Term
			if isUnsigned(rt) {
				q = mkApp("div", SInt, x, y)
				r = mkApp("mod", SInt, x, y)
			} else {
				// truncated division
				ax := mkIte(mkCmp(">=", x, mkInt(0)), x, mkNeg(x))
				ay := mkIte(mkCmp(">=", y, mkInt(0)), y, mkNeg(y))
				qa := mkApp("div", SInt, ax, ay)
				sameSign := mkEq(mkCmp(">=", x, mkInt(0)), mkCmp(">=", y, mkInt(0)))
				q = mkIte(sameSign, qa, mkNeg(qa))
				ra := mkApp("mod", SInt, ax, ay)
				r = mkIte(mkCmp(">=", x, mkInt(0)), ra, mkNeg(ra))
			}
			if op == token.QUO {
				return &VS{vc.nameIfBig(wrapTo(q, rt))}
			}
			return &VS{vc.nameIfBig(r)}
		case token.SHL:
			if y.Kind == TInt && y.Int.IsInt64() && y.Int.Int64() < 64 {
				return &VS{vc.nameIfBig(wrapTo(mkMul(x, mkBig(pow2(int(y.Int.Int64())))), rt))}
			}
			r := mkApp("bv.shl", SInt, x, y)
			vc.assume(st, rangeFact(r, rt))
			return &VS{r}
		case token.SHR:
			if y.Kind == TInt && y.Int.IsInt64() && y.Int.Int64() < 64 {
				return &VS{vc.nameIfBig(mkApp("div", SInt, x, mkBig(pow2(int(y.Int.Int64())))))}
			}
			r := mkApp("bv.shr", SInt, x, y)
			vc.assume(st, rangeFact(r, rt))
			return &VS{r}
		case token.AND:
			// x & (2^k - 1) = x mod 2^k for non-negative x
			if y.Kind == TInt {
				yp := new(big.Int).Add(y.Int, big.NewInt(1))
				if yp.Sign() > 0 && new(big.Int).And(yp, y.Int).Sign() == 0 && isUnsigned(rt) {
					return &VS{mkApp("mod", SInt, x, mkBig(yp))}
				}
			}
			r := mkApp("bv.and", SInt, x, y)
			vc.assume(st, rangeFact(r, rt))
			if isUnsigned(rt) {
				vc.assume(st, mkAnd(mkCmp("<=", r, x), mkCmp("<=", r, y)))
			}
			return &VS{r}
		case token.OR, token.XOR, token.AND_NOT:
			r := mkApp("bv."+map[token.Token]string{token.OR: "or", token.XOR: "xor", token.AND_NOT: "andnot"}[op], SInt, x, y)
			vc.assume(st, rangeFact(r, rt))
			return &VS{r}
		}
	}
	panic(unsupported(fmt.Sprintf("binop %s on %s", op, x.Sort)))
}

func (vc *VC) nameIfBig(t *Term) *Term {
	if termSize(t) > 14 {
		v := vc.fresh("v", t.Sort)
		vc.assumeGlobal(mkEq(v, t))
		return v
	}
	return t
}

func (vc *VC) strCat(st *State, x, y *Term) *Term {
	r := mkApp("str.cat", SStr, x, y)
	vc.assume(st, mkEq(vc.strlen(r), mkAdd(vc.strlen(x), vc.strlen(y))))
	return r
}

func (fr *Frame) indexAddr(in *ssa.IndexAddr, st *State, pos string) Val {
	vc := fr.vc
	x := fr.get(in.X)
	idx := scalarOf(fr.get(in.Index), in.Index.Type())
	switch xt := in.X.Type().Underlying().(type) {
	case *types.Slice:
		s := x.(*VSlice)
		vc.oblige(st, "bounds", fr.name("idx@"+shortPos(pos)), pos, "index in range", mkAnd(mkCmp("<=", mkInt(0), idx), mkCmp("<", idx, s.Len)), nil)
		return &VPtr{Kind: PElem, Base: s.Base, Idx: mkAdd(s.Off, idx), Root: xt.Elem()}
	case *types.Pointer:
		arr := xt.Elem().Underlying().(*types.Array)
		base := scalarOf(x, in.X.Type())
		vc.oblige(st, "bounds", fr.name("idx@"+shortPos(pos)), pos, "array index in range", mkAnd(mkCmp("<=", mkInt(0), idx), mkCmp("<", idx, mkInt(arr.Len()))), nil)
		return &VPtr{Kind: PElem, Base: base, Idx: idx, Root: arr.Elem()}
	}
	panic(unsupported("indexaddr on " + in.X.Type().String()))
}

func (fr *Frame) sliceOp(in *ssa.Slice, st *State, pos string) Val {
	vc := fr.vc
	x := fr.get(in.X)
	var lo, hi, mx *Term
	if in.Low != nil {
		lo = scalarOf(fr.get(in.Low), in.Low.Type())
	}
	if in.High != nil {
		hi = scalarOf(fr.get(in.High), in.High.Type())
	}
	if in.Max != nil {
		mx = scalarOf(fr.get(in.Max), in.Max.Type())
	}
	switch xt := in.X.Type().Underlying().(type) {
	case *types.Slice:
		s := x.(*VSlice)
		if lo == nil {
			lo = mkInt(0)
		}
		if hi == nil {
			hi = s.Len
		}
		capEnd := s.Cap
		if mx != nil {
			capEnd = mx
			vc.oblige(st, "bounds", fr.name("slice3@"+shortPos(pos)), pos, "slice max in range", mkAnd(mkCmp("<=", hi, mx), mkCmp("<=", mx, s.Cap)), nil)
		}
		vc.oblige(st, "bounds", fr.name("slice@"+shortPos(pos)), pos, "slice bounds in range: 0 <= low <= high <= cap", mkAnd(mkCmp("<=", mkInt(0), lo), mkCmp("<=", lo, hi), mkCmp("<=", hi, s.Cap)), nil)
		return &VSlice{Base: s.Base, Off: vc.nameIfBig(mkAdd(s.Off, lo)), Len: vc.nameIfBig(mkSub(hi, lo)), Cap: vc.nameIfBig(mkSub(capEnd, lo))}
	case *types.Pointer:
		arr := xt.Elem().Underlying().(*types.Array)
		base := scalarOf(x, in.X.Type())
		n := mkInt(arr.Len())
		if lo == nil {
			lo = mkInt(0)
		}
		if hi == nil {
			hi = n
		}
		vc.oblige(st, "bounds", fr.name("slice@"+shortPos(pos)), pos, "slice bounds in range", mkAnd(mkCmp("<=", mkInt(0), lo), mkCmp("<=", lo, hi), mkCmp("<=", hi, n)), nil)
		return &VSlice{Base: base, Off: lo, Len: mkSub(hi, lo), Cap: mkSub(n, lo)}
	case *types.Basic:
		// string slicing
		s := scalarOf(x, in.X.Type())
		if lo == nil {
			lo = mkInt(0)
		}
		if hi == nil {
			hi = vc.strlen(s)
		}
		vc.oblige(st, "bounds", fr.name("slice@"+shortPos(pos)), pos, "string slice bounds in range", mkAnd(mkCmp("<=", mkInt(0), lo), mkCmp("<=", lo, hi), mkCmp("<=", hi, vc.strlen(s))), nil)
		r := mkApp("str.sub", SStr, s, lo, hi)
		vc.assume(st, mkEq(vc.strlen(r), mkSub(hi, lo)))
		return &VS{r}
	}
	panic(unsupported("slice of " + in.X.Type().String()))
}

func (fr *Frame) convert(in *ssa.Convert, st *State, pos string) Val {
	vc := fr.vc
	x := fr.get(in.X)
	from, to := in.X.Type(), in.Type()
	fs, ts := leafSort(from), leafSort(to)
	_, fromSlice := from.Underlying().(*types.Slice)
	_, toSlice := to.Underlying().(*types.Slice)
	switch {
	case fromSlice && ts == SStr:
		s := x.(*VSlice)
		return &VS{vc.bytesToStr(st, s)}
	case fs == SStr && toSlice:
		s := scalarOf(x, from)
		return vc.strToBytes(st, s)
	case fromSlice || toSlice:
		panic(unsupported("slice conversion"))
	case fs == SInt && ts == SInt:
		return &VS{vc.nameIfBig(convInt(scalarOf(x, from), from, to))}
	case fs == SInt && ts == SReal:
		vc.note("floating point treated as real arithmetic: integer to float conversion exact (true below 2^53), products and comparisons unrounded")
		return &VS{mkApp("to_real", SReal, scalarOf(x, from))}
	case fs == SReal && ts == SInt:
		t := scalarOf(x, from)
		r := mkApp("f2i", SInt, t)
		// truncation toward zero for values in range
		vc.assume(st, mkImplies(mkCmp(">=", t, mkReal("0.0")), mkEq(r, mkApp("to_int", SInt, t))))
		vc.assume(st, mkImplies(mkCmp("<", t, mkReal("0.0")), mkEq(r, mkNeg(mkApp("to_int", SInt, mkApp("-", SReal, t))))))
		vc.note("float to int conversion treated as exact truncation of a real")
		return &VS{vc.nameIfBig(wrapTo(r, to))}
	case fs == SReal && ts == SReal:
		return x
	case fs == SStr && ts == SStr:
		return x
	case fs == SInt && ts == SStr:
		return &VS{mkApp("str.fromrune", SStr, scalarOf(x, from))}
	case fs == SRef && ts == SRef:
		return x
	}
	panic(unsupported(fmt.Sprintf("convert %s -> %s", from, to)))
}

var byteT = types.Typ[types.Uint8]

func (vc *VC) bytesArr(st *State, base *Term) *Term {
	arr := vc.famGet(st, "E$uint8", SArr(SRef, SArr(SInt, SInt)))
	return mkSelect(arr, base)
}

func (vc *VC) bytesToStr(st *State, s *VSlice) *Term {
	r := mkApp("bstr", SStr, vc.bytesArr(st, s.Base), s.Off, s.Len)
	vc.assume(st, mkEq(vc.strlen(r), s.Len))
	return r
}

func (vc *VC) strToBytes(st *State, s *Term) Val {
	r := vc.newRef(st, "bytes")
	key := "E$uint8"
	srt := SArr(SRef, SArr(SInt, SInt))
	arr := vc.famGet(st, key, srt)
	content := mkApp("strbytes", SArr(SInt, SInt), s)
	restore := vc.withTouch(r)
	vc.famSet(st, key, mkStore(arr, r, content))
	restore()
	n := vc.strlen(s)
	vc.assume(st, mkCmp(">=", n, mkInt(0)))
	vc.assume(st, mkEq(mkApp("bstr", SStr, content, mkInt(0), n), s))
	return &VSlice{Base: r, Off: mkInt(0), Len: n, Cap: n}
}

func (vc *VC) typeTag(t types.Type) *Term {
	return mkVar("type!"+typeKey(t), SInt)
}

func (vc *VC) assumeDynType(st *State, r *Term, t types.Type) {
	vc.eng.typeTags[typeKey(t)] = true
	vc.assume(st, mkEq(mkApp("dyntype", SInt, r), vc.typeTag(t)))
}

func (vc *VC) makeInterface(st *State, t types.Type, v Val) Val {
	switch t.Underlying().(type) {
	case *types.Pointer:
		r := scalarOf(v, t)
		vc.eng.typeTags[typeKey(t)] = true
		vc.assume(st, mkImplies(mkNeq(r, tNull), mkEq(mkApp("dyntype", SInt, r), vc.typeTag(t))))
		return &VS{r}
	case *types.Interface:
		return v
	case *types.Map, *types.Chan, *types.Signature:
		return &VS{scalarOf(v, t)}
	}
	// boxed value
	r := vc.newRef(st, "box")
	vc.assumeDynType(st, r, t)
	walkVal(t, "", v, func(l Leaf, tm *Term) {
		vc.assume(st, mkEq(mkApp("unbox$"+typeKey(t)+l.Path, l.Sort, r), tm))
	})
	return &VS{r}
}

func (fr *Frame) typeAssert(in *ssa.TypeAssert, st *State, pos string) Val {
	vc := fr.vc
	x := scalarOf(fr.get(in.X), in.X.Type())
	to := in.AssertedType
	var ok *Term
	var val Val
	if _, isIface := to.Underlying().(*types.Interface); isIface {
		ok = mkAnd(mkNeq(x, tNull), mkApp("implements$"+typeKey(to), SBool, mkApp("dyntype", SInt, x)))
		if types.Identical(to.Underlying(), in.X.Type().Underlying()) || types.AssignableTo(in.X.Type(), to) {
			ok = mkNeq(x, tNull)
		}
		val = &VS{x}
	} else {
		vc.eng.typeTags[typeKey(to)] = true
		ok = mkAnd(mkNeq(x, tNull), mkEq(mkApp("dyntype", SInt, x), vc.typeTag(to)))
		switch to.Underlying().(type) {
		case *types.Pointer, *types.Map, *types.Chan, *types.Signature:
			val = &VS{x}
		default:
			val = buildVal(to, "", func(l Leaf) *Term {
				tm := mkApp("unbox$"+typeKey(to)+l.Path, l.Sort, x)
				return tm
			})
			vc.valFacts(st, to, val)
		}
	}
	if in.CommaOk {
		return &VTuple{E: []Val{val, &VS{ok}}}
	}
	vc.oblige(st, "assert", fr.name("typeassert@"+shortPos(pos)), pos, "type assertion to "+typeKey(to)+" succeeds", ok, nil)
	vc.assume(st, ok)
	return val
}

// ---------------------------------------------------------------- maps

func mapKeys(mt *types.Map) (dom, ln string) {
	k := typeKey(mt)
	return "MD$" + k, "ML$" + k
}

func (vc *VC) mapDom(st *State, mt *types.Map, m *Term) *Term {
	dk, _ := mapKeys(mt)
	ks := leafSort(mt.Key())
	return mkSelect(vc.famGet(st, dk, SArr(SRef, SArr(ks, SBool))), m)
}

func (vc *VC) mapLen(st *State, mt *types.Map, m *Term) *Term {
	_, lk := mapKeys(mt)
	return mkSelect(vc.famGet(st, lk, SArr(SRef, SInt)), m)
}

func (vc *VC) mapValLeaf(st *State, mt *types.Map, m *Term, l Leaf) (string, *Term) {
	ks := leafSort(mt.Key())
	key := "MV$" + typeKey(mt) + l.Path
	return key, vc.famGet(st, key, SArr(SRef, SArr(ks, l.Sort)))
}

func (vc *VC) initMap(st *State, r *Term, mt *types.Map) {
	defer vc.withTouch(r)()
	ks := leafSort(mt.Key())
	dk, lk := mapKeys(mt)
	d := vc.famGet(st, dk, SArr(SRef, SArr(ks, SBool)))
	vc.famSet(st, dk, mkStore(d, r, mkConstArr(SArr(ks, SBool), tFalse)))
	l := vc.famGet(st, lk, SArr(SRef, SInt))
	vc.famSet(st, lk, mkStore(l, r, mkInt(0)))
}

func (vc *VC) mapStore(st *State, m *Term, mt *types.Map, k *Term, v Val) {
	defer vc.withTouch(m)()
	ks := leafSort(mt.Key())
	dk, lk := mapKeys(mt)
	dsort := SArr(SRef, SArr(ks, SBool))
	d := vc.famGet(st, dk, dsort)
	dm := mkSelect(d, m)
	had := mkSelect(dm, k)
	l := vc.famGet(st, lk, SArr(SRef, SInt))
	vc.famSet(st, lk, mkStore(l, m, mkAdd(mkSelect(l, m), mkIte(had, mkInt(0), mkInt(1)))))
	vc.famSet(st, dk, mkStore(d, m, mkStore(dm, k, tTrue)))
	walkVal(mt.Elem(), "", v, func(lf Leaf, tm *Term) {
		key, arr := vc.mapValLeaf(st, mt, m, lf)
		vc.famSet(st, key, mkStore(arr, m, mkStore(mkSelect(arr, m), k, tm)))
	})
}

func (vc *VC) mapDelete(st *State, m *Term, mt *types.Map, k *Term) {
	defer vc.withTouch(m)()
	ks := leafSort(mt.Key())
	dk, lk := mapKeys(mt)
	d := vc.famGet(st, dk, SArr(SRef, SArr(ks, SBool)))
	dm := mkSelect(d, m)
	had := mkSelect(dm, k)
	l := vc.famGet(st, lk, SArr(SRef, SInt))
	// delete on nil map is a no-op
	vc.famSet(st, lk, mkStore(l, m, mkSub(mkSelect(l, m), mkIte(had, mkInt(1), mkInt(0)))))
	vc.famSet(st, dk, mkStore(d, m, mkStore(dm, k, tFalse)))
}

func (vc *VC) mapLoad(st *State, m *Term, mt *types.Map, k *Term) (Val, *Term) {
	has := mkAnd(mkNeq(m, tNull), mkSelect(vc.mapDom(st, mt, m), k))
	v := buildVal(mt.Elem(), "", func(l Leaf) *Term {
		_, arr := vc.mapValLeaf(st, mt, m, l)
		raw := mkSelect(mkSelect(arr, m), k)
		vc.typeFact(st, raw, l)
		// name the looked-up value: has => v = stored value, !has => v = zero
		v := vc.fresh("mapval", l.Sort)
		vc.assumeGlobal(mkAnd(mkImplies(has, mkEq(v, raw)), mkImplies(mkNot(has), mkEq(v, zeroTerm(l.Sort)))))
		return v
	})
	return v, has
}

func (vc *VC) mapFacts(st *State, mt *types.Map, m *Term) {
	n := vc.mapLen(st, mt, m)
	vc.assume(st, mkAnd(mkCmp(">=", n, mkInt(0)), mkCmp("<=", n, mkBig(pow2(62)))))
}

func (fr *Frame) lookup(in *ssa.Lookup, st *State, pos string) Val {
	vc := fr.vc
	switch mt := in.X.Type().Underlying().(type) {
	case *types.Map:
		m := scalarOf(fr.get(in.X), in.X.Type())
		k := vc.keyTerm(fr.get(in.Index), mt.Key())
		v, has := vc.mapLoad(st, m, mt, k)
		if in.CommaOk {
			return &VTuple{E: []Val{v, &VS{has}}}
		}
		return v
	case *types.Basic:
		s := scalarOf(fr.get(in.X), in.X.Type())
		idx := scalarOf(fr.get(in.Index), in.Index.Type())
		vc.oblige(st, "bounds", fr.name("idx@"+shortPos(pos)), pos, "string index in range", mkAnd(mkCmp("<=", mkInt(0), idx), mkCmp("<", idx, vc.strlen(s))), nil)
		r := mkApp("str.at", SInt, s, idx)
		vc.assume(st, mkAnd(mkCmp("<=", mkInt(0), r), mkCmp("<=", r, mkInt(255))))
		return &VS{r}
	}
	panic(unsupported("lookup"))
}

func (vc *VC) mapNext(st *State, it *VIter) Val {
	mt := it.MapType
	ok := vc.fresh("next$ok", SBool)
	k := vc.fresh("next$k", leafSort(mt.Key()))
	vis := st.heap[it.Visited]
	dom := vc.mapDom(st, mt, it.Map)
	vc.assume(st, mkImplies(ok, mkAnd(mkNeq(it.Map, tNull), mkSelect(dom, k), mkNot(mkSelect(vis, k)))))
	// exhaustion: when not ok, every key of the map has been visited
	kk := mkVar("k!", leafSort(mt.Key()))
	vc.assume(st, mkImplies(mkNot(ok), mkForall([]*Term{kk}, mkImplies(mkAnd(mkNeq(it.Map, tNull), mkSelect(dom, kk)), mkSelect(vis, kk)), []*Term{mkSelect(dom, kk)})))
	if kt := mt.Key(); leafSort(kt) == SInt {
		vc.assume(st, rangeFact(k, kt))
	}
	st.heap[it.Visited] = mkStore(vis, k, tTrue)
	v, _ := vc.mapLoad(st, it.Map, mt, k)
	return &VTuple{E: []Val{&VS{ok}, vc.keyVal(k, mt.Key()), v}}
}

// Struct-typed map keys are represented by one Ref-sorted term built with an (injective) pairing function:
// skey$T(leaf values...) with projections skey$T#path. Only ground instances of the pairing laws are added.
func (vc *VC) keyTerm(v Val, kt types.Type) *Term {
	if _, ok := isStruct(kt); !ok {
		return scalarOf(v, kt)
	}
	var ls []Leaf
	var ts []*Term
	walkVal(kt, "", v, func(l Leaf, tm *Term) {
		ls = append(ls, l)
		ts = append(ts, tm)
	})
	k := vc.nameIfBig(mkApp("skey$"+typeKey(kt), SRef, ts...))
	for i, l := range ls {
		vc.assumeGlobal(mkEq(mkApp("skeyproj$"+typeKey(kt)+l.Path, l.Sort, k), ts[i]))
	}
	return k
}

func (vc *VC) keyVal(k *Term, kt types.Type) Val {
	if _, ok := isStruct(kt); !ok {
		return &VS{k}
	}
	var ts []*Term
	v := buildVal(kt, "", func(l Leaf) *Term {
		t := mkApp("skeyproj$"+typeKey(kt)+l.Path, l.Sort, k)
		ts = append(ts, t)
		return t
	})
	vc.assumeGlobal(mkEq(mkApp("skey$"+typeKey(kt), SRef, ts...), k))
	return v
}

// ---------------------------------------------------------------- defers

func (fr *Frame) runDefers(st *State, pos string) *State {
	vc := fr.vc
	cur := st
	for i := len(fr.defers) - 1; i >= 0; i-- {
		d := fr.defers[i]
		armed := cur.heap[fr.armed[d]]
		if armed == nil || isFalse(armed) {
			continue
		}
		// args must be computed (the defer dominates this point if armed)
		ok := true
		for _, a := range d.Call.Args {
			if _, isConst := a.(*ssa.Const); isConst {
				continue
			}
			if _, isG := a.(*ssa.Global); isG {
				continue
			}
			if _, isF := a.(*ssa.Function); isF {
				continue
			}
			if _, have := fr.regs[a]; !have {
				ok = false
			}
		}
		if !ok {
			continue
		}
		// run under guard
		thenSt := cur.clone()
		thenSt.reach = mkAnd(cur.reach, armed)
		if !isTrue(armed) {
			r := vc.fresh("reach$defer", SBool)
			vc.assumeGlobal(mkEq(r, thenSt.reach))
			thenSt.reach = r
		}
		_, after, alive := fr.call(d, &d.Call, thenSt, pos)
		if isTrue(armed) {
			if !alive {
				return cur
			}
			cur = after
			continue
		}
		elseSt := cur.clone()
		elseSt.reach = mkAnd(cur.reach, mkNot(armed))
		if alive {
			cur = vc.mergeStates([]*State{after, elseSt}, []*Term{tTrue, tTrue}, "defer")
		} else {
			cur = elseSt
		}
	}
	return cur
}
