package main

import (
	"encoding/json"
	"flag"
	"fmt"
	"os"
	"path/filepath"
	"regexp"
	"sort"
	"strconv"
	"strings"
	"time"

	"golang.org/x/tools/go/ssa"
)

type Sweep struct {
	Prop    string            `json:"prop"`
	Pattern string            `json:"pattern"` // regexp on ssa function string
	Flags   map[string]string `json:"flags"`
	Kinds   []string          `json:"kinds"` // obligation kinds counted for this property (empty = all)
	Requires []string         `json:"requires"` // preconditions assumed for swept functions without their own contract
}

type KnownFinding struct {
	Property   string `json:"property"`
	Obligation string `json:"obligation"` // regexp on obligation id
	Witness    string `json:"witness_class"`
	What       string `json:"what_fails"`
	Driver     string `json:"replay_driver"`
}

type KnownFile struct {
	Findings []KnownFinding `json:"findings"`
	Fixed    []string       `json:"fixed"`
}

func main() {
	if len(os.Args) < 2 {
		fmt.Fprintln(os.Stderr, "usage: govc check|dump|list ...")
		os.Exit(2)
	}
	switch os.Args[1] {
	case "check":
		os.Exit(cmdCheck(os.Args[2:]))
	case "dump":
		cmdDump(os.Args[2:])
	case "scan":
		cmdScan(os.Args[2:])
	default:
		fmt.Fprintln(os.Stderr, "unknown command")
		os.Exit(2)
	}
}

func hasProp(ps []string, p string) bool {
	for _, x := range ps {
		if x == p {
			return true
		}
	}
	return false
}

func contractMentions(fc *FuncContract, prop string) bool {
	if hasProp(fc.Props, prop) {
		return true
	}
	for _, c := range fc.Requires {
		if hasProp(c.Props, prop) {
			return true
		}
	}
	for _, c := range fc.Ensures {
		if hasProp(c.Props, prop) {
			return true
		}
	}
	for _, l := range fc.Loops {
		for _, c := range l.Invariants {
			if hasProp(c.Props, prop) {
				return true
			}
		}
	}
	return false
}

func cmdDump(args []string) {
	fs := flag.NewFlagSet("dump", flag.ExitOnError)
	repo := fs.String("repo", "/repo", "")
	verif := fs.String("verif", "/verif", "")
	fnName := fs.String("func", "", "ssa function string (regexp)")
	smt := fs.String("smt", "", "obligation id regexp: print SMT script")
	ssaDump := fs.Bool("ssa", false, "print SSA")
	pat := fs.String("pkgs", "./...", "")
	fs.Parse(args)
	e, err := loadEngine(*repo, filepath.Join(*verif, "specs"), strings.Fields(*pat))
	if err != nil {
		fmt.Fprintln(os.Stderr, err)
		os.Exit(2)
	}
	re := regexp.MustCompile(*fnName)
	for _, fn := range e.allFuncs() {
		if !re.MatchString(fn.String()) {
			continue
		}
		if *ssaDump {
			fn.WriteTo(os.Stdout)
		}
		fc := e.contracts.Funcs[fn.String()]
		vc := e.verifyFunc(fn, fc, []string{"X"})
		fmt.Printf("== %s: %d obligations, failed=%q\n", fn.String(), len(vc.obligs), vc.failed)
		scratch, _ := os.MkdirTemp("", "govc")
		solveAll(vc.obligs, solveOpts{timeout: 10 * time.Second, workers: 16, scratch: scratch})
		os.RemoveAll(scratch)
		for _, o := range vc.obligs {
			fmt.Printf("  %-8s %-9s %6.2fs %s  [%s] %s\n", o.Verdict, o.Solver, o.TimeS, o.ID, o.Pos, o.Desc)
			if *smt != "" && regexp.MustCompile(*smt).MatchString(o.ID) {
				if os.Getenv("GOVC_SLIM") != "" && o.slimText != "" {
					fmt.Println(o.slimText)
				} else if os.Getenv("GOVC_USES") != "" && o.usesText != "" {
					fmt.Println(o.usesText)
				} else {
					fmt.Println(o.scriptText)
				}
				fmt.Println("; attempts:", o.Attempts)
				if o.Model != "" {
					fmt.Println(o.Model)
				}
			}
		}
		for _, n := range sortedKeys(vc.notes) {
			fmt.Println("  note:", n)
		}
	}
}

func (e *Engine) allFuncs() []*ssa.Function {
	var out []*ssa.Function
	seen := map[*ssa.Function]bool{}
	var add func(fn *ssa.Function)
	add = func(fn *ssa.Function) {
		if fn == nil || seen[fn] || len(fn.Blocks) == 0 {
			return
		}
		seen[fn] = true
		out = append(out, fn)
		for _, a := range fn.AnonFuncs {
			add(a)
		}
	}
	for _, sp := range e.prog.AllPackages() {
		if !strings.HasPrefix(sp.Pkg.Path(), e.modPath) {
			continue
		}
		for _, m := range sp.Members {
			switch x := m.(type) {
			case *ssa.Function:
				add(x)
			case *ssa.Type:
				for _, t := range []interface{}{x.Type(), nil} {
					_ = t
				}
				ms := e.prog.MethodSets.MethodSet(x.Type())
				for i := 0; i < ms.Len(); i++ {
					if f := e.prog.MethodValue(ms.At(i)); f != nil && f.Synthetic == "" {
						add(f)
					}
				}
				ms = e.prog.MethodSets.MethodSet(typesPtrTo(x.Type()))
				for i := 0; i < ms.Len(); i++ {
					if f := e.prog.MethodValue(ms.At(i)); f != nil && f.Synthetic == "" {
						add(f)
					}
				}
			}
		}
	}
	sort.Slice(out, func(i, j int) bool { return out[i].String() < out[j].String() })
	return out
}

func cmdCheck(args []string) int {
	fs := flag.NewFlagSet("check", flag.ExitOnError)
	repo := fs.String("repo", "/repo", "")
	verif := fs.String("verif", "/verif", "")
	prop := fs.String("prop", "", "property id")
	tier := fs.String("tier", "quick", "quick|thorough")
	evOut := fs.String("evidence", "", "evidence file (default <verif>/evidence/<prop>.json)")
	verbose := fs.Bool("v", false, "")
	fs.Parse(args)
	t0 := time.Now()
	// Deductive checks are deterministic: VERIF_SEED is deliberately NOT fed to the solvers. A proof found with one
	// solver seed must be found again on every run (specs/hints.json records the variant), so the seed is fixed.
	// GOVC_SOLVER_SEED exists for stability experiments only.
	seed := 0
	if s := os.Getenv("GOVC_SOLVER_SEED"); s != "" {
		seed, _ = strconv.Atoi(s)
	}
	if *evOut == "" {
		*evOut = filepath.Join(*verif, "evidence", *prop+".json")
	}
	e, err := loadEngine(*repo, filepath.Join(*verif, "specs"), []string{"./..."})
	if err != nil {
		fmt.Fprintln(os.Stderr, "load error:", err)
		return 2
	}
	var sweeps []Sweep
	if data, err := os.ReadFile(filepath.Join(*verif, "specs", "sweeps.json")); err == nil {
		if err := json.Unmarshal(data, &sweeps); err != nil {
			fmt.Fprintln(os.Stderr, "sweeps.json:", err)
			return 2
		}
	}
	var known KnownFile
	if data, err := os.ReadFile(filepath.Join(*verif, "known_findings.json")); err == nil {
		if err := json.Unmarshal(data, &known); err != nil {
			fmt.Fprintln(os.Stderr, "known_findings.json:", err)
			return 2
		}
	}
	run := newRun(e, *prop, *tier, seed, *verif)
	run.verbose = *verbose
	if data, err := os.ReadFile(filepath.Join(*verif, "specs", "unclaimed.json")); err == nil {
		if err := json.Unmarshal(data, &run.unclaimed); err != nil {
			fmt.Fprintln(os.Stderr, "unclaimed.json:", err)
			return 2
		}
	}
	if len(e.loadErrs) > 0 {
		// the tree does not type-check: nothing can be proved about it
		run.addSynthetic("load#typecheck", "binding", "the repository type-checks with -tags verif", strings.Join(e.loadErrs, "; "))
	}
	run.hints = map[string]string{}
	hintFile := filepath.Join(*verif, "specs", "hints.json")
	if data, err := os.ReadFile(hintFile); err == nil {
		if err := json.Unmarshal(data, &run.hints); err != nil {
			fmt.Fprintln(os.Stderr, "hints.json:", err)
			return 2
		}
	}
	run.collect(sweeps)
	run.solve()
	run.runBounded()
	if os.Getenv("GOVC_WRITE_HINTS") != "" {
		// maintenance mode (never part of a registered check): remember which portfolio variant discharged an
		// obligation the primary configuration could not
		for _, o := range run.obligs {
			if o.Verdict == "unsat" && !o.Hinted && len(o.Attempts) > 1 {
				for _, nm := range portfolio {
					if o.Solver == nm {
						run.hints[o.ID] = nm
					}
				}
				if strings.HasPrefix(o.Solver, "z3-new-noext(slice-") {
					run.hints[o.ID] = o.Solver
				}
			}
			if o.Verdict == "unsat" && !o.Hinted && len(o.Attempts) <= 1 {
				delete(run.hints, o.ID) // the primary configuration suffices again
			}
		}
		if data, err := json.MarshalIndent(run.hints, "", " "); err == nil {
			os.WriteFile(hintFile, data, 0o644)
		}
	}
	code := run.report(known, *evOut, t0)
	return code
}

// cmdScan: generate VCs for every function matching a pattern (no solving) and report reach failures.
func cmdScan(args []string) {
	fs := flag.NewFlagSet("scan", flag.ExitOnError)
	repo := fs.String("repo", "/repo", "")
	verif := fs.String("verif", "/verif", "")
	fnName := fs.String("func", ".", "")
	pat := fs.String("pkgs", "./...", "")
	fs.Parse(args)
	e, err := loadEngine(*repo, filepath.Join(*verif, "specs"), strings.Fields(*pat))
	if err != nil {
		fmt.Fprintln(os.Stderr, err)
		os.Exit(2)
	}
	re := regexp.MustCompile(*fnName)
	ok, bad, nob := 0, 0, 0
	reasons := map[string]int{}
	for _, fn := range e.allFuncs() {
		if !re.MatchString(fn.String()) {
			continue
		}
		var vc *VC
		func() {
			defer func() {
				if r := recover(); r != nil {
					vc = &VC{failed: fmt.Sprintf("PANIC: %v", r)}
				}
			}()
			vc = e.verifyFunc(fn, e.contracts.Funcs[fn.String()], []string{"X"})
		}()
		if vc.failed != "" {
			bad++
			reasons[vc.failed]++
			fmt.Printf("FAIL %s: %s\n", shortFuncString(fn.String()), vc.failed)
		} else {
			ok++
			nob += len(vc.obligs)
		}
	}
	fmt.Printf("ok=%d fail=%d obligations=%d\n", ok, bad, nob)
}
