package main

// Calls: builtins, native models, contract calls, inlining, havoc.

import (
	"fmt"
	"go/types"
	"regexp"
	"strings"

	"golang.org/x/tools/go/ssa"
)

type writeSet struct {
	fams map[string]*Sort // whole families written (coarse)
	all  bool
}

func newWriteSet() *writeSet { return &writeSet{fams: map[string]*Sort{}} }

func (w *writeSet) add(o *writeSet) {
	for k, s := range o.fams {
		w.fams[k] = s
	}
	if o.all {
		w.all = true
	}
}

func (vc *VC) havocWriteSet(st *State, ws *writeSet) {
	for _, k := range sortedKeys(ws.fams) {
		s := ws.fams[k]
		if k == allocKey {
			continue // the clock only advances (growAlloc below)
		}
		if strings.HasPrefix(k, "G$") {
			if _, ok := st.heap[k]; ok || true {
				st.heap[k] = vc.fresh("H$"+k, s)
				vc.famSort[k] = s
			}
			continue
		}
		vc.famHavoc(st, k, s)
	}
	if len(ws.fams) > 0 {
		vc.growAlloc(st)
	}
}

func famKeysFor(kind string, root types.Type, sub string, t types.Type) map[string]*Sort {
	out := map[string]*Sort{}
	for _, l := range leaves(t) {
		switch kind {
		case "F":
			out["F$"+typeKey(root)+sub+l.Path] = SArr(SRef, l.Sort)
		case "C":
			out["C$"+typeKey(root)+sub+l.Path] = SArr(SRef, l.Sort)
		case "E":
			out["E$"+typeKey(root)+sub+l.Path] = SArr(SRef, SArr(SInt, l.Sort))
		}
	}
	return out
}

func mapFamKeys(mt *types.Map) map[string]*Sort {
	out := map[string]*Sort{}
	ks := leafSort(mt.Key())
	dk, lk := mapKeys(mt)
	out[dk] = SArr(SRef, SArr(ks, SBool))
	out[lk] = SArr(SRef, SInt)
	for _, l := range leaves(mt.Elem()) {
		out["MV$"+typeKey(mt)+l.Path] = SArr(SRef, SArr(ks, l.Sort))
	}
	return out
}

// addrFams computes the families possibly written through address value a (syntactic).
func (e *Engine) addrFams(a ssa.Value, locals map[*ssa.Alloc]bool, ws *writeSet, t types.Type) {
	switch x := a.(type) {
	case *ssa.Alloc:
		if !x.Heap {
			if locals != nil {
				locals[x] = true
			}
			return
		}
		et := x.Type().(*types.Pointer).Elem()
		kind := "C"
		if _, ok := isStruct(et); ok {
			kind = "F"
		}
		for k, s := range famKeysFor(kind, et, "", et) {
			ws.fams[k] = s
		}
	case *ssa.FieldAddr:
		// find root
		var path []int
		cur := ssa.Value(x)
		for {
			fa, ok := cur.(*ssa.FieldAddr)
			if !ok {
				break
			}
			path = append([]int{fa.Field}, path...)
			cur = fa.X
		}
		if al, ok := cur.(*ssa.Alloc); ok && !al.Heap {
			if locals != nil {
				locals[al] = true
			}
			return
		}
		if ia, ok := cur.(*ssa.IndexAddr); ok {
			var et types.Type
			switch xt := ia.X.Type().Underlying().(type) {
			case *types.Slice:
				et = xt.Elem()
			case *types.Pointer:
				et = xt.Elem().Underlying().(*types.Array).Elem()
			}
			ft, sub := subPath(et, path)
			for k, s := range famKeysFor("E", et, sub, ft) {
				ws.fams[k] = s
			}
			return
		}
		if g, ok := cur.(*ssa.Global); ok {
			gt := g.Type().(*types.Pointer).Elem()
			ft, sub := subPath(gt, path)
			for _, l := range leaves(ft) {
				ws.fams["G$"+shortPkg(g.Pkg.Pkg.Path())+"."+g.Name()+sub+l.Path] = l.Sort
			}
			return
		}
		root := cur.Type().Underlying().(*types.Pointer).Elem()
		ft, sub := subPath(root, path)
		for k, s := range famKeysFor("F", root, sub, ft) {
			ws.fams[k] = s
		}
		// the root pointer may itself be an interior pointer (param of inlined callee): conservative note
	case *ssa.IndexAddr:
		var et types.Type
		switch xt := x.X.Type().Underlying().(type) {
		case *types.Slice:
			et = xt.Elem()
		case *types.Pointer:
			et = xt.Elem().Underlying().(*types.Array).Elem()
		}
		for k, s := range famKeysFor("E", et, "", et) {
			ws.fams[k] = s
		}
	case *ssa.Global:
		gt := x.Type().(*types.Pointer).Elem()
		for _, l := range leaves(gt) {
			ws.fams["G$"+shortPkg(x.Pkg.Pkg.Path())+"."+x.Name()+l.Path] = l.Sort
		}
	default:
		// pointer-typed value (param, load, ...): whole-type families
		pt, ok := a.Type().Underlying().(*types.Pointer)
		if !ok {
			return
		}
		et := pt.Elem()
		kind := "C"
		if _, ok := isStruct(et); ok {
			kind = "F"
		}
		for k, s := range famKeysFor(kind, et, "", et) {
			ws.fams[k] = s
		}
	}
}

func (e *Engine) instrWrites(in ssa.Instruction, locals map[*ssa.Alloc]bool, ws *writeSet, depth int) {
	switch x := in.(type) {
	case *ssa.Store:
		e.addrFams(x.Addr, locals, ws, nil)
	case *ssa.MapUpdate:
		for k, s := range mapFamKeys(x.Map.Type().Underlying().(*types.Map)) {
			ws.fams[k] = s
		}
	case *ssa.Alloc:
		if !x.Heap && locals != nil {
			locals[x] = true
		}
		ws.fams[allocKey] = allocSort
	case *ssa.MakeSlice, *ssa.MakeMap, *ssa.MakeChan, *ssa.MakeInterface:
		ws.fams[allocKey] = allocSort
		if ms, ok := x.(*ssa.MakeSlice); ok {
			et := ms.Type().Underlying().(*types.Slice).Elem()
			for k, s := range famKeysFor("E", et, "", et) {
				ws.fams[k] = s
			}
		}
		if mm, ok := x.(*ssa.MakeMap); ok {
			for k, s := range mapFamKeys(mm.Type().Underlying().(*types.Map)) {
				ws.fams[k] = s
			}
		}
	case *ssa.Convert:
		if _, ok := x.Type().Underlying().(*types.Slice); ok {
			ws.fams[allocKey] = allocSort
			ws.fams["E$uint8"] = SArr(SRef, SArr(SInt, SInt))
		}
	case ssa.CallInstruction:
		ws.add(e.callWrites(x.Common(), depth))
	}
}

// callWrites: families possibly written by a call (syntactic, conservative).
func (e *Engine) callWrites(c *ssa.CallCommon, depth int) *writeSet {
	ws := newWriteSet()
	ws.fams[allocKey] = allocSort
	if b, ok := c.Value.(*ssa.Builtin); ok {
		switch b.Name() {
		case "append", "copy":
			if st, ok := c.Args[0].Type().Underlying().(*types.Slice); ok {
				for k, s := range famKeysFor("E", st.Elem(), "", st.Elem()) {
					ws.fams[k] = s
				}
			}
		case "delete", "clear":
			if mt, ok := c.Args[0].Type().Underlying().(*types.Map); ok {
				for k, s := range mapFamKeys(mt) {
					ws.fams[k] = s
				}
			}
		}
		return ws
	}
	var fn *ssa.Function
	if c.IsInvoke() {
		if ifc := e.ifaceContract(c); ifc != nil {
			for k, s := range e.ghostFamsOf(c.Value.Type()) {
				ws.fams[k] = s
			}
			for _, a := range c.Args {
				if mc, ok := a.(*ssa.MakeClosure); ok {
					ws.add(e.funcWrites(mc.Fn.(*ssa.Function), depth+1))
				}
			}
			return ws
		}
		fn = e.devirtTarget(c)
	} else {
		switch v := c.Value.(type) {
		case *ssa.Function:
			fn = v
		case *ssa.MakeClosure:
			fn = v.Fn.(*ssa.Function)
		}
	}
	if fn == nil {
		// unknown callee: effects limited to argument pointees
		for _, a := range c.Args {
			e.typeReachFams(a.Type(), ws, 1)
		}
		return ws
	}
	if nm := fn.String(); strings.HasPrefix(nm, "sync/atomic.") && len(c.Args) > 0 {
		if _, ok := e.natives[nm]; ok && !strings.HasPrefix(nm, "sync/atomic.Load") {
			e.addrFams(c.Args[0], nil, ws, nil)
			return ws
		}
	}
	if nm := fn.String(); (nm == "sort.Slice" || nm == "sort.SliceStable") && len(c.Args) > 0 {
		if mi, ok := c.Args[0].(*ssa.MakeInterface); ok {
			if st, ok := mi.X.Type().Underlying().(*types.Slice); ok {
				for k, s := range famKeysFor("E", st.Elem(), "", st.Elem()) {
					ws.fams[k] = s
				}
				return ws
			}
		}
	}
	if nm := fn.String(); strings.HasPrefix(nm, "(encoding/binary.bigEndian).PutUint") {
		ws.fams["E$uint8"] = SArr(SRef, SArr(SInt, SInt))
		return ws
	}
	ws.add(e.funcWrites(fn, depth+1))
	// closures passed as arguments may be invoked by the callee
	for _, a := range c.Args {
		if mc, ok := a.(*ssa.MakeClosure); ok {
			ws.add(e.funcWrites(mc.Fn.(*ssa.Function), depth+1))
		}
	}
	return ws
}

func (e *Engine) funcWrites(fn *ssa.Function, depth int) *writeSet {
	if w, ok := e.writeCache[fn]; ok {
		if w == nil {
			return newWriteSet() // recursion in progress
		}
		return w
	}
	if _, ok := e.natives[fn.String()]; ok {
		ws := newWriteSet()
		if nw := e.nativeWrites[fn.String()]; nw != nil {
			ws.add(nw)
		}
		return ws
	}
	fc := e.contracts.Funcs[fn.String()]
	if fc != nil && !fc.Inline && (fc.HasMod || fc.Extern || fc.Pure) {
		ws := e.modifiesFams(fn, fc)
		e.writeCache[fn] = ws
		return ws
	}
	if len(fn.Blocks) == 0 || !e.isOlric(fn) || depth > 12 {
		ws := newWriteSet()
		if !e.isOlric(fn) {
			// extern without contract: argument pointees
			sig := fn.Signature
			if sig.Recv() != nil {
				e.typeReachFams(sig.Recv().Type(), ws, 1)
			}
			for i := 0; i < sig.Params().Len(); i++ {
				e.typeReachFams(sig.Params().At(i).Type(), ws, 1)
			}
		} else {
			ws.all = true
		}
		return ws
	}
	e.writeCache[fn] = nil
	ws := newWriteSet()
	for _, b := range fn.Blocks {
		for _, in := range b.Instrs {
			e.instrWrites(in, nil, ws, depth)
		}
	}
	e.writeCache[fn] = ws
	return ws
}

// typeReachFams adds families reachable from a value of type t through `levels` pointer hops.
func (e *Engine) typeReachFams(t types.Type, ws *writeSet, levels int) {
	if levels < 0 {
		return
	}
	switch u := t.Underlying().(type) {
	case *types.Pointer:
		et := u.Elem()
		kind := "C"
		if _, ok := isStruct(et); ok {
			kind = "F"
		}
		if _, ok := et.Underlying().(*types.Array); ok {
			at := et.Underlying().(*types.Array)
			for k, s := range famKeysFor("E", at.Elem(), "", at.Elem()) {
				ws.fams[k] = s
			}
			return
		}
		for k, s := range famKeysFor(kind, et, "", et) {
			ws.fams[k] = s
		}
	case *types.Slice:
		for k, s := range famKeysFor("E", u.Elem(), "", u.Elem()) {
			ws.fams[k] = s
		}
	case *types.Map:
		for k, s := range mapFamKeys(u) {
			ws.fams[k] = s
		}
	}
}

// modifiesFams: coarse family-level footprint of a contract's modifies clause.
func (e *Engine) modifiesFams(fn *ssa.Function, fc *FuncContract) *writeSet {
	ws := newWriteSet()
	for _, m := range fc.Modifies {
		fams, err := e.modTargetFams(fn, fc, m)
		if err != nil {
			ws.all = true
			continue
		}
		for k, s := range fams {
			ws.fams[k] = s
		}
	}
	return ws
}

// ---------------------------------------------------------------- call dispatch

// ifaceContract: assumed abstract contract declared on an interface method, e.g. (pkg/path.Engine).Put.
func (e *Engine) ifaceContract(c *ssa.CallCommon) *FuncContract {
	n, ok := c.Value.Type().(*types.Named)
	if !ok || n.Obj().Pkg() == nil {
		return nil
	}
	return e.contracts.Funcs["("+n.Obj().Pkg().Path()+"."+n.Obj().Name()+")."+c.Method.Name()]
}

// ifaceContractHidden: the contract asks not to be used inside some packages (where the concrete implementation is
// verified against its own contracts): flag hidden_in <path-suffix>[,<path-suffix>...]
func (e *Engine) ifaceContractHidden(fc *FuncContract, root *ssa.Function) bool {
	h := fc.Flags["hidden_in"]
	if h == "" {
		return false
	}
	pp := fnPkgPath(root)
	for _, s := range strings.FieldsFunc(h, func(r rune) bool { return r == ',' || r == ' ' }) {
		if strings.HasSuffix(pp, s) {
			return true
		}
	}
	return false
}

// ghostFamsOf: heap families of all ghost fields declared on named type t (coarse footprint of abstract contracts).
func (e *Engine) ghostFamsOf(t types.Type) map[string]*Sort {
	out := map[string]*Sort{}
	for _, g := range e.ghostsOf(t) {
		vc := e.newVC(nil, nil)
		env := vc.newEnv(e.typesPkg(g.PkgPath), nil, nil)
		func() {
			defer func() { recover() }()
			gty := env.resolveTypeIn(g)
			out["F$"+typeKey(t)+".$"+g.Field] = SArr(SRef, ghostSort(gty))
		}()
	}
	return out
}

func (e *Engine) devirtTarget(c *ssa.CallCommon) *ssa.Function {
	it := c.Value.Type()
	impl := e.devirt[typeKey(it)]
	if impl == nil {
		return nil
	}
	return e.prog.LookupMethod(impl, c.Method.Pkg(), c.Method.Name())
}

func (fr *Frame) call(site ssa.Instruction, c *ssa.CallCommon, st *State, pos string) (Val, *State, bool) {
	vc := fr.vc
	var args []Val
	var fn *ssa.Function
	var bind []Val
	if c.IsInvoke() {
		recv := fr.get(c.Value)
		r := scalarOf(recv, c.Value.Type())
		vc.oblige(st, "nil", fr.name("nil@invoke."+c.Method.Name()+"@"+shortPos(pos)), pos, "method call on nil interface: "+c.Method.Name(), mkNeq(r, tNull), nil)
		vc.assume(st, mkNeq(r, tNull))
		args = append(args, recv)
		for _, a := range c.Args {
			args = append(args, fr.get(a))
		}
		// an (assumed) abstract contract on the interface method takes precedence over devirtualisation
		if ifc := vc.eng.ifaceContract(c); ifc != nil && !(vc.root != nil && vc.eng.ifaceContractHidden(ifc, vc.root)) {
			ifc.Used = true
			if ifc.Flags["iterates"] != "" {
				return fr.iterateCall(site, c, ifc, args, st, pos)
			}
			var pkg *types.Package
			if n, ok := c.Value.Type().(*types.Named); ok {
				pkg = n.Obj().Pkg()
			}
			v := fr.ifaceContractCall(c.Signature(), c.Value.Type(), c.Method.Name(), pkg, ifc, args, st, pos)
			return v, st, true
		}
		fn = vc.eng.devirtTarget(c)
		if fn == nil {
			vc.note("dynamic call havocked: " + typeKey(c.Value.Type()) + "." + c.Method.Name())
			return vc.havocCall(st, c.Signature(), c, args, nil), st, true
		}
		vc.note("devirt " + typeKey(c.Value.Type()) + " => " + typeKey(vc.eng.devirt[typeKey(c.Value.Type())]))
	} else {
		if b, ok := c.Value.(*ssa.Builtin); ok {
			for _, a := range c.Args {
				args = append(args, fr.get(a))
			}
			return fr.builtin(b, c, args, st, pos)
		}
		for _, a := range c.Args {
			args = append(args, fr.get(a))
		}
		switch v := c.Value.(type) {
		case *ssa.Function:
			fn = v
		default:
			switch fv := fr.get(c.Value).(type) {
			case *VClosure:
				fn, bind = fv.Fn, fv.Bind
			case *VFunc:
				fn = fv.Fn
			default:
				// unknown function value (callback parameter)
				f := scalarOf(fv, c.Value.Type())
				vc.oblige(st, "nil", fr.name("nil@callfn@"+shortPos(pos)), pos, "call of nil function value", mkNeq(f, tNull), nil)
				// a function stored in a struct field may carry an (assumed) abstract contract: flag funcfield
				if key, name, recv, recvT, pkg := fr.funcFieldOf(c.Value); key != "" {
					if ffc := vc.eng.contracts.Funcs[key]; ffc != nil && ffc.Flags["funcfield"] != "" {
						ffc.Used = true
						v := fr.ifaceContractCall(c.Signature(), recvT, name, pkg, ffc, append([]Val{recv}, args...), st, pos)
						return v, st, true
					}
				}
				vc.note("callback parameters are treated as effect-free (result havoc) in " + fr.fn.String())
				return vc.havocResults(st, c.Signature()), st, true
			}
		}
	}
	return fr.callStatic(fn, bind, args, c, st, pos)
}

func (fr *Frame) callStatic(fn *ssa.Function, bind []Val, args []Val, c *ssa.CallCommon, st *State, pos string) (Val, *State, bool) {
	vc := fr.vc
	e := vc.eng
	key := fn.String()
	if fn.Origin() != nil {
		key = fn.Origin().String()
	}
	if fr.top && vc.fc != nil && len(vc.fc.AtCalls) > 0 {
		// caller-side obligations anchored to this callee (atcall clauses of the function being verified)
		for _, ac := range vc.fc.AtCalls {
			if ac.Pat.MatchString(key) {
				// arg0, arg1, ...: the values passed at this call site (receiver first for a method)
				extra := map[string]TV{}
				for i, a := range args {
					if i < len(fn.Params) && a != nil {
						extra[fmt.Sprintf("arg%d", i)] = TV{a, fn.Params[i].Type()}
					}
				}
				g := vc.evalClause(fr, ac.Clause, st, vc.entry, extra)
				vc.oblige(st, "requires", fr.name("atcall."+ac.Clause.Name+"@"+shortPos(pos)), pos, "at every call of "+ac.Pat.String()+": "+ac.Clause.Src, g, ac.Clause.Props)
				if vc.atCallSeen == nil {
					vc.atCallSeen = map[string]int{}
				}
				vc.atCallSeen[ac.Clause.Name]++
			}
		}
	}
	fc := e.contracts.Funcs[key]
	if fc != nil && fc.Flags["iterates"] != "" && c != nil {
		fc.Used = true
		var site ssa.Instruction
		for _, b := range fr.fn.Blocks {
			for _, in := range b.Instrs {
				if ci, ok := in.(ssa.CallInstruction); ok && ci.Common() == c {
					site = in
				}
			}
		}
		return fr.iterateCall(site, c, fc, args, st, pos)
	}
	inlineHere := false
	if fc != nil && fc.Flags["contract_only_in"] != "" {
		// the contract is used only at call sites inside functions whose name matches; elsewhere the body is
		// inlined as if there were no contract (the callers there carry the proof themselves)
		if ok, _ := regexp.MatchString(fc.Flags["contract_only_in"], fr.vc.root.String()); !ok {
			inlineHere = true
		}
	}
	if fc != nil && !fc.Inline && !inlineHere {
		fc.Used = true
		v := fr.contractCall(fn, fc, args, bind, st, pos)
		return v, st, true
	}
	if nat, ok := e.natives[key]; ok {
		v := nat(fr, st, args, c, pos)
		return v, st, true
	}
	inline := false
	if fc != nil && (fc.Inline || inlineHere) {
		inline = true
	} else if fn.Synthetic != "" && len(fn.Blocks) > 0 {
		inline = true
	} else if len(fn.Blocks) > 0 && e.isOlric(fn) && e.smallLeaf(fn) && fr.depth < 5 {
		inline = true
	} else if len(fn.Blocks) > 0 && fn.Parent() != nil && fr.depth < 5 && e.isOlric(fn) && bind != nil && e.loopFree(fn) {
		// function literal invoked directly
		inline = true
	}
	if inline {
		short := fn.Name()
		res := vc.execFunc(fn, args, bind, st, fr.depth+1, fr.prefix+short+".", false)
		if res == nil {
			return nil, nil, false
		}
		return packResults(fn.Signature, res.results), res.st, true
	}
	// uncontracted callee
	if e.isOlric(fn) {
		vc.note("uncontracted callee havocked (assumed not to panic, to terminate): " + key)
	} else {
		vc.note("extern callee without contract havocked: " + key)
	}
	ws := e.funcWrites(fn, 0)
	for _, a := range c.Args {
		if mc, ok := a.(*ssa.MakeClosure); ok {
			ws.add(e.funcWrites(mc.Fn.(*ssa.Function), 1))
		}
		if mi, ok := a.(*ssa.MakeInterface); ok && !e.isOlric(fn) && strings.Contains(fn.Name(), "Unmarshal") {
			// a decoder writes through the pointer it is handed as interface{}: the static parameter type
			// says nothing, the dynamic type at this call site does
			e.typeReachFams(mi.X.Type(), ws, 1)
		}
	}
	if ws.all {
		vc.note("callee with unknown footprint: whole heap havocked at call to " + key)
		vc.havocAll(st)
	} else {
		vc.havocWriteSet(st, ws)
	}
	return vc.havocResults(st, fn.Signature), st, true
}

func (vc *VC) havocAll(st *State) {
	for k, s := range vc.famSort {
		if strings.HasPrefix(k, "$") {
			continue
		}
		st.heap[k] = vc.fresh("H$"+k, s)
	}
	vc.growAlloc(st)
}

func packResults(sig *types.Signature, rs []Val) Val {
	switch sig.Results().Len() {
	case 0:
		return nil
	case 1:
		return rs[0]
	}
	return &VTuple{E: rs}
}

func (vc *VC) havocResults(st *State, sig *types.Signature) Val {
	var rs []Val
	for i := 0; i < sig.Results().Len(); i++ {
		rs = append(rs, vc.havocVal(st, sig.Results().At(i).Type(), "ret"))
	}
	return packResults(sig, rs)
}

func (vc *VC) havocCall(st *State, sig *types.Signature, c *ssa.CallCommon, args []Val, fn *ssa.Function) Val {
	ws := newWriteSet()
	for _, a := range c.Args {
		vc.eng.typeReachFams(a.Type(), ws, 1)
	}
	vc.havocWriteSet(st, ws)
	return vc.havocResults(st, sig)
}

func (e *Engine) isOlric(fn *ssa.Function) bool {
	p := fn.Pkg
	if p == nil && fn.Parent() != nil {
		p = fn.Parent().Pkg
	}
	if p == nil {
		// synthetic wrappers: look at receiver / origin
		if fn.Signature.Recv() != nil {
			if n := namedOf(fn.Signature.Recv().Type()); n != nil && n.Obj().Pkg() != nil {
				return strings.HasPrefix(n.Obj().Pkg().Path(), e.modPath)
			}
		}
		return false
	}
	return strings.HasPrefix(p.Pkg.Path(), e.modPath)
}

func namedOf(t types.Type) *types.Named {
	if p, ok := t.(*types.Pointer); ok {
		t = p.Elem()
	}
	n, _ := t.(*types.Named)
	return n
}

func (e *Engine) loopFree(fn *ssa.Function) bool {
	for _, b := range fn.Blocks {
		for _, s := range b.Succs {
			if s.Dominates(b) {
				return false
			}
		}
	}
	return true
}

// smallLeaf: loop-free, few instructions, and calls only to other small leaves / natives / contracts.
func (e *Engine) smallLeaf(fn *ssa.Function) bool {
	if v, ok := e.smallCache[fn]; ok {
		return v
	}
	e.smallCache[fn] = false
	n := 0
	for _, b := range fn.Blocks {
		n += len(b.Instrs)
	}
	if n > 60 || !e.loopFree(fn) {
		return false
	}
	for _, b := range fn.Blocks {
		for _, in := range b.Instrs {
			switch in.(type) {
			case *ssa.Go, *ssa.Select, *ssa.Defer:
				return false
			}
			if ci, ok := in.(ssa.CallInstruction); ok {
				c := ci.Common()
				if _, ok := c.Value.(*ssa.Builtin); ok {
					continue
				}
				var callee *ssa.Function
				if c.IsInvoke() {
					callee = e.devirtTarget(c)
				} else if f, ok := c.Value.(*ssa.Function); ok {
					callee = f
				}
				if callee == nil {
					return false
				}
				if _, ok := e.natives[callee.String()]; ok {
					continue
				}
				if fc := e.contracts.Funcs[callee.String()]; fc != nil {
					continue
				}
				if !e.isOlric(callee) {
					continue // extern havoc is fine inside an inlined leaf
				}
				if !e.smallLeaf(callee) {
					return false
				}
			}
		}
	}
	e.smallCache[fn] = true
	return true
}

// ---------------------------------------------------------------- builtins

func (fr *Frame) builtin(b *ssa.Builtin, c *ssa.CallCommon, args []Val, st *State, pos string) (Val, *State, bool) {
	vc := fr.vc
	switch b.Name() {
	case "len":
		switch x := args[0].(type) {
		case *VSlice:
			return &VS{x.Len}, st, true
		case *VS:
			switch t := c.Args[0].Type().Underlying().(type) {
			case *types.Basic:
				n := vc.strlen(x.T)
				vc.assume(st, mkCmp(">=", n, mkInt(0)))
				return &VS{n}, st, true
			case *types.Map:
				n := mkIte(mkEq(x.T, tNull), mkInt(0), vc.mapLen(st, t, x.T))
				vc.mapFacts(st, t, x.T)
				return &VS{n}, st, true
			case *types.Chan:
				n := vc.fresh("chanlen", SInt)
				vc.assume(st, mkCmp(">=", n, mkInt(0)))
				return &VS{n}, st, true
			case *types.Pointer:
				return &VS{mkInt(t.Elem().Underlying().(*types.Array).Len())}, st, true
			}
		}
	case "cap":
		if x, ok := args[0].(*VSlice); ok {
			return &VS{x.Cap}, st, true
		}
		n := vc.fresh("cap", SInt)
		vc.assume(st, mkCmp(">=", n, mkInt(0)))
		return &VS{n}, st, true
	case "append":
		return fr.doAppend(c, args, st, pos), st, true
	case "copy":
		return fr.doCopy(c, args, st, pos), st, true
	case "delete":
		mt := c.Args[0].Type().Underlying().(*types.Map)
		m := scalarOf(args[0], mt)
		k := vc.keyTerm(args[1], mt.Key())
		// delete on a nil map is a no-op; guard the update
		pre := st.clone()
		vc.mapDelete(st, m, mt, k)
		_ = pre
		return nil, st, true
	case "print", "println":
		return nil, st, true
	case "recover":
		return &VS{tNull}, st, true
	case "min", "max":
		x := scalarOf(args[0], c.Args[0].Type())
		for _, a := range args[1:] {
			y := scalarOf(a, c.Args[0].Type())
			if b.Name() == "min" {
				x = mkIte(mkCmp("<=", x, y), x, y)
			} else {
				x = mkIte(mkCmp(">=", x, y), x, y)
			}
		}
		return &VS{x}, st, true
	case "ssa:wrapnilchk":
		return args[0], st, true
	case "close":
		return nil, st, true
	case "clear":
		if mt, ok := c.Args[0].Type().Underlying().(*types.Map); ok {
			m := scalarOf(args[0], mt)
			vc.initMap(st, m, mt)
			return nil, st, true
		}
	}
	if strings.HasPrefix(b.Name(), "ssa:") {
		return vc.havocResults(st, c.Signature()), st, true
	}
	panic(unsupported("builtin " + b.Name()))
}

// copyInto returns the new content array for dst after copying n elements from (srcArr, srcOff) to dstOff.
func (vc *VC) copyElems(st *State, et types.Type, dstBase, dstOff, srcBase, srcOff, n *Term) {
	defer vc.withTouch(dstBase)()
	for _, l := range leaves(et) {
		key := "E$" + typeKey(et) + l.Path
		s := SArr(SRef, SArr(SInt, l.Sort))
		arr := vc.famGet(st, key, s)
		d := mkSelect(arr, dstBase)
		var src *Term
		if srcBase != nil {
			src = mkSelect(arr, srcBase)
		}
		nd := vc.fresh("inner$"+typeKey(et)+l.Path, SArr(SInt, l.Sort))
		j := mkVar("j!", SInt)
		in := mkAnd(mkCmp("<=", dstOff, j), mkCmp("<", j, mkAdd(dstOff, n)))
		srcIdx := mkAdd(mkSub(j, dstOff), srcOff)
		vc.assume(st, mkForall([]*Term{j}, mkEq(mkSelect(nd, j), mkIte(in, mkSelect(src, srcIdx), mkSelect(d, j))), []*Term{mkSelect(nd, j)}))
		vc.famSet(st, key, mkStore(arr, dstBase, nd))
	}
}

func (fr *Frame) doCopy(c *ssa.CallCommon, args []Val, st *State, pos string) Val {
	vc := fr.vc
	dst := args[0].(*VSlice)
	et := c.Args[0].Type().Underlying().(*types.Slice).Elem()
	var n *Term
	if src, ok := args[1].(*VSlice); ok {
		n = vc.nameIfBig(mkIte(mkCmp("<=", dst.Len, src.Len), dst.Len, src.Len))
		vc.copyElems(st, et, dst.Base, dst.Off, src.Base, src.Off, n)
	} else {
		// copy from string
		s := scalarOf(args[1], c.Args[1].Type())
		sl := vc.strlen(s)
		vc.assume(st, mkCmp(">=", sl, mkInt(0)))
		n = vc.nameIfBig(mkIte(mkCmp("<=", dst.Len, sl), dst.Len, sl))
		key := "E$uint8"
		srt := SArr(SRef, SArr(SInt, SInt))
		arr := vc.famGet(st, key, srt)
		d := mkSelect(arr, dst.Base)
		content := mkApp("strbytes", SArr(SInt, SInt), s)
		nd := vc.fresh("inner$uint8", SArr(SInt, SInt))
		j := mkVar("j!", SInt)
		in := mkAnd(mkCmp("<=", dst.Off, j), mkCmp("<", j, mkAdd(dst.Off, n)))
		vc.assume(st, mkForall([]*Term{j}, mkEq(mkSelect(nd, j), mkIte(in, mkSelect(content, mkSub(j, dst.Off)), mkSelect(d, j))), []*Term{mkSelect(nd, j)}))
		restore := vc.withTouch(dst.Base)
		vc.famSet(st, key, mkStore(arr, dst.Base, nd))
		restore()
	}
	return &VS{n}
}

func (fr *Frame) doAppend(c *ssa.CallCommon, args []Val, st *State, pos string) Val {
	vc := fr.vc
	s := args[0].(*VSlice)
	et := c.Args[0].Type().Underlying().(*types.Slice).Elem()
	var n *Term
	var src *VSlice
	var strSrc *Term
	switch x := args[1].(type) {
	case *VSlice:
		src = x
		n = x.Len
	case *VS: // append([]byte, string...)
		strSrc = x.T
		n = vc.strlen(x.T)
		vc.assume(st, mkCmp(">=", n, mkInt(0)))
	}
	newLen := vc.nameIfBig(mkAdd(s.Len, n))
	fits := mkCmp("<=", newLen, s.Cap)
	// result: in place when it fits, else fresh base with copied prefix
	nb := vc.newRef(st, "append")
	ncap := vc.fresh("append$cap", SInt)
	vc.assume(st, mkAnd(mkCmp(">=", ncap, newLen), mkCmp("<=", ncap, mkBig(pow2(62)))))
	resBase := vc.nameRef(st, mkIte(fits, s.Base, nb))
	resOff := mkIte(fits, s.Off, mkInt(0))
	resCap := mkIte(fits, s.Cap, ncap)
	res := &VSlice{Base: resBase, Off: vc.nameIfBig(resOff), Len: newLen, Cap: vc.nameIfBig(resCap)}
	// contents: res[i] for i < s.Len equals s[i]; res[s.Len + i] = src[i]
	for _, l := range leaves(et) {
		key := "E$" + typeKey(et) + l.Path
		srt := SArr(SRef, SArr(SInt, l.Sort))
		arr := vc.famGet(st, key, srt)
		old := mkSelect(arr, s.Base)
		oldRes := mkSelect(arr, resBase)
		nd := vc.fresh("inner$"+typeKey(et)+l.Path, SArr(SInt, l.Sort))
		j := mkVar("j!", SInt)
		inOld := mkAnd(mkCmp("<=", res.Off, j), mkCmp("<", j, mkAdd(res.Off, s.Len)))
		inNew := mkAnd(mkCmp("<=", mkAdd(res.Off, s.Len), j), mkCmp("<", j, mkAdd(res.Off, newLen)))
		var srcElem *Term
		if src != nil {
			srcElem = mkSelect(mkSelect(arr, src.Base), mkAdd(src.Off, mkSub(j, mkAdd(res.Off, s.Len))))
		} else if strSrc != nil {
			srcElem = mkSelect(mkApp("strbytes", SArr(SInt, SInt), strSrc), mkSub(j, mkAdd(res.Off, s.Len)))
		} else {
			srcElem = zeroTerm(l.Sort)
		}
		body := mkEq(mkSelect(nd, j), mkIte(inOld, mkSelect(old, mkAdd(s.Off, mkSub(j, res.Off))), mkIte(inNew, srcElem, mkSelect(oldRes, j))))
		vc.assume(st, mkForall([]*Term{j}, body, []*Term{mkSelect(nd, j)}))
		restore := vc.withTouch(resBase)
		vc.famSet(st, key, mkStore(arr, resBase, nd))
		restore()
	}
	return res
}

func (vc *VC) nameRef(st *State, t *Term) *Term {
	if t.Kind == TVar {
		return t
	}
	v := vc.fresh("ref", t.Sort)
	vc.assumeGlobal(mkEq(v, t))
	return v
}

// funcFieldOf: if v is the value of a func-typed field x.f of a named struct, returns the contract key
// "(pkg.T).f", the field name, the value of x (struct or pointer), its type and T's package.
func (fr *Frame) funcFieldOf(v ssa.Value) (key, name string, recv Val, recvT types.Type, pkg *types.Package) {
	var x ssa.Value
	var idx int
	switch u := v.(type) {
	case *ssa.Field:
		x, idx = u.X, u.Field
	case *ssa.UnOp:
		fa, ok := u.X.(*ssa.FieldAddr)
		if !ok {
			return
		}
		x, idx = fa.X, fa.Field
	default:
		return
	}
	t := x.Type()
	if p, ok := t.Underlying().(*types.Pointer); ok {
		t = p.Elem()
	}
	n, ok := t.(*types.Named)
	if !ok || n.Obj().Pkg() == nil {
		return
	}
	st, ok := n.Underlying().(*types.Struct)
	if !ok || idx >= st.NumFields() {
		return
	}
	name = st.Field(idx).Name()
	return "(" + n.Obj().Pkg().Path() + "." + n.Obj().Name() + ")." + name, name, fr.get(x), x.Type(), n.Obj().Pkg()
}
