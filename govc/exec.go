package main

// Block-merge symbolic execution of go/ssa functions (back edges cut at loop heads).

import (
	"fmt"
	"go/constant"
	"go/token"
	"go/types"
	"math/big"
	"sort"
	"strings"

	"golang.org/x/tools/go/ssa"
)

type State struct {
	heap   map[string]*Term
	locals map[*ssa.Alloc]Val
	reach  *Term
}

func (s *State) clone() *State {
	n := &State{heap: make(map[string]*Term, len(s.heap)), locals: make(map[*ssa.Alloc]Val, len(s.locals)), reach: s.reach}
	for k, v := range s.heap {
		n.heap[k] = v
	}
	for k, v := range s.locals {
		n.locals[k] = v
	}
	return n
}

type Oblig struct {
	ID      string // pkg.func#name@site
	Kind    string // requires ensures invariant decreases frame bounds nil assert divzero panic lemma binding termination cast
	Func    string
	Pos     string
	Props   []string
	Desc    string
	Reach   *Term
	Goal    *Term
	NAssume int
	vc      *VC
	// results
	Verdict string
	Solver  string
	TimeS   float64
	Model   string
	Known   bool
	Output  string
	Attempts []string
	Second  string
	ModelQF bool
	scriptText string
	qfText     string
	slimText   string
	identText  string
	Slim       bool
	Hinted     bool
	hintText   string // assumption slice named by a hint (built before the parallel phase)
	hintName   string
	HasUses    bool     // the clause names the loop invariants its proof needs (uses(...))
	Uses       []string // those names (the clause's own name first)
	usesText   string
}

type VC struct {
	eng     *Engine
	root    *ssa.Function
	fc      *FuncContract
	assumes []*Term
	obligs  []*Oblig
	n       int
	entry   *State
	famSort map[string]*Sort
	strLits map[string]string // term name -> literal
	notes   map[string]bool
	sites   map[string]int
	depth   int
	props   []string
	sentUse map[string]bool
	nowLast *Term
	failed  string // unsupported reason
	internalSeen map[string]int // internal clause name -> number of exits it was checked at
	atCallSeen   map[string]int // atcall clause name -> number of call sites it was checked at
	tagNames   []string // parallel to assumes: name of the loop invariant an 'I' assumption comes from
	tagName    string
	curHasUses bool
	curUses    []string
	ghostVars map[string]*Term
	accessed  map[string]bool
	noLoadFacts bool
	preds       map[string]*predInfo
	predsInit   bool
	suppressTouch bool
	touchIdx      *Term
	tags          []byte // provenance of each assumption (parallel to assumes)
	tag           byte
	onlyPreds     map[string]bool // when set: only these abstract functions get frames (the others are unused in this VC)
	usedPreds     map[string]bool
}

func (vc *VC) fresh(prefix string, s *Sort) *Term {
	vc.n++
	return mkVar(fmt.Sprintf("%s!%d", prefix, vc.n), s)
}

func (vc *VC) note(s string) { vc.notes[s] = true }

func (vc *VC) assume(st *State, fact *Term) {
	if isTrue(fact) || vc.noLoadFacts {
		return
	}
	if fact.Kind == TApp && fact.Op == "and" {
		// top-level conjuncts separately, so that assumption slicing works per conjunct
		for _, c := range fact.Args {
			vc.assume(st, c)
		}
		return
	}
	vc.assumes = append(vc.assumes, mkImplies(st.reach, fact))
	vc.tags = append(vc.tags, vc.tag)
	vc.tagNames = append(vc.tagNames, vc.tagName)
}

func (vc *VC) assumeGlobal(fact *Term) {
	if isTrue(fact) {
		return
	}
	vc.assumes = append(vc.assumes, fact)
	vc.tags = append(vc.tags, vc.tag)
	vc.tagNames = append(vc.tagNames, vc.tagName)
}

// withTag marks the provenance of the assumptions made until the returned function is called:
// 'R' own preconditions, 'I' loop invariants assumed at a loop head, 'L' earlier postconditions used as lemmas,
// 'E' callee postconditions, 'F' frame axioms, 0 everything else (definitions, guards, type facts).
func (vc *VC) withTag(t byte) func() {
	saved := vc.tag
	vc.tag = t
	return func() { vc.tag = saved }
}

func (vc *VC) site(key string) int {
	n := vc.sites[key]
	vc.sites[key] = n + 1
	return n
}

func (vc *VC) oblige(st *State, kind, name, pos, desc string, goal *Term, props []string) {
	if vc.fc != nil {
		if sk := vc.fc.Flags["skip"]; sk != "" {
			for _, k := range strings.FieldsFunc(sk, func(r rune) bool { return r == ',' || r == ' ' }) {
				if k == kind {
					vc.note("obligations of kind '" + kind + "' are not generated for " + vc.root.String() + " (contract flag skip)")
					return
				}
			}
		}
	}
	id := name
	n := vc.site(id)
	if n > 0 {
		id = fmt.Sprintf("%s~%d", id, n)
	}
	if len(props) == 0 {
		props = vc.props
	}
	if !vc.curHasUses && vc.fc != nil {
		for _, h := range vc.fc.Hints {
			if h.Pat.MatchString(id) {
				vc.curHasUses, vc.curUses = true, h.Uses
				defer func() { vc.curHasUses, vc.curUses = false, nil }()
				break
			}
		}
	}
	// contract clauses that are conjunctions are discharged conjunct by conjunct (smaller, more stable queries;
	// the failing conjunct is named in the report)
	if kind == "ensures" || kind == "invariant" || kind == "requires" {
		if parts := splitGoal(goal); len(parts) > 1 {
			for i, g := range parts {
				vc.obligs = append(vc.obligs, &Oblig{ID: fmt.Sprintf("%s/%d", id, i+1), Kind: kind, Func: vc.root.String(), Pos: pos, Props: props,
					Desc: fmt.Sprintf("%s (conjunct %d of %d)", desc, i+1, len(parts)), Reach: st.reach, Goal: g, NAssume: len(vc.assumes), vc: vc,
					HasUses: vc.curHasUses, Uses: vc.curUses})
			}
			return
		}
	}
	vc.obligs = append(vc.obligs, &Oblig{ID: id, Kind: kind, Func: vc.root.String(), Pos: pos, Props: props, Desc: desc,
		Reach: st.reach, Goal: goal, NAssume: len(vc.assumes), vc: vc, HasUses: vc.curHasUses, Uses: vc.curUses})
}

// splitGoal distributes a goal over conjunctions: A && B, forall x :: (G ==> A && B), G ==> (A && B).
func splitGoal(t *Term) []*Term {
	switch {
	case t.Kind == TApp && t.Op == "and":
		var out []*Term
		for _, a := range t.Args {
			out = append(out, splitGoal(a)...)
		}
		return out
	case t.Kind == TApp && t.Op == "=>" && len(t.Args) == 2:
		parts := splitGoal(t.Args[1])
		if len(parts) <= 1 {
			return []*Term{t}
		}
		var out []*Term
		for _, p := range parts {
			out = append(out, mkImplies(t.Args[0], p))
		}
		return out
	case t.Kind == TQuant && t.Op == "forall":
		parts := splitGoal(t.Args[0])
		if len(parts) <= 1 {
			return []*Term{t}
		}
		var out []*Term
		for _, p := range parts {
			out = append(out, &Term{Kind: TQuant, Op: "forall", Bound: t.Bound, Args: []*Term{p}, Sort: SBool, Pats: t.Pats})
		}
		return out
	}
	return []*Term{t}
}

// ---------------------------------------------------------------- heap

func (vc *VC) famGet(st *State, key string, s *Sort) *Term {
	if old, ok := vc.famSort[key]; ok {
		if !old.Eq(s) {
			panic(fmt.Sprintf("family %s used with sorts %s and %s", key, old, s))
		}
	} else {
		vc.famSort[key] = s
	}
	if vc.accessed == nil {
		vc.accessed = map[string]bool{}
	}
	vc.accessed[key] = true
	if t, ok := st.heap[key]; ok {
		return t
	}
	return mkVar("H$"+key, s)
}

func (vc *VC) famSet(st *State, key string, t *Term) {
	vc.famSort[key] = t.Sort
	if termSize(t) > 12 {
		v := vc.fresh("H$"+key, t.Sort)
		vc.assumeGlobal(mkEq(v, t))
		t = v
	}
	vc.touchFamily(st, key) // before the update: frames are computed on the pre-state
	st.heap[key] = t
}

func (vc *VC) famHavoc(st *State, key string, s *Sort) *Term {
	v := vc.fresh("H$"+key, s)
	vc.famSort[key] = s
	vc.touchFamily(st, key)
	st.heap[key] = v
	return v
}

// Allocation is modelled with a logical clock: every reference has a fixed birth time (uninterpreted
// birth : Ref -> Int); a state carries the current clock; r is allocated in a state iff birth(r) < clock.
// Allocation takes the current clock as birth time and advances the clock. No arrays, no quantifiers.
const allocKey = "$clock"

var allocSort = SInt

func (vc *VC) clock(st *State) *Term { return vc.famGet(st, allocKey, allocSort) }

func birth(r *Term) *Term { return mkApp("birth", SInt, r) }

// allocated(r) in state st
func (vc *VC) allocatedIn(st *State, r *Term) *Term { return mkCmp("<", birth(r), vc.clock(st)) }

func (vc *VC) newRef(st *State, hint string) *Term {
	r := vc.fresh("new$"+hint, SRef)
	c := vc.clock(st)
	vc.assume(st, mkAnd(mkNeq(r, tNull), mkEq(birth(r), c)))
	st.heap[allocKey] = vc.nameIfBig(mkAdd(c, mkInt(1)))
	return r
}

func (vc *VC) growAlloc(st *State) {
	c := vc.clock(st)
	nc := vc.fresh("H$"+allocKey, allocSort)
	st.heap[allocKey] = nc
	vc.assume(st, mkCmp(">=", nc, c))
}

type locRef struct {
	kind  int
	key   string // family key (without leaf path)
	base  *Term
	idx   *Term
	alloc *ssa.Alloc
	path  []int
	root  types.Type
}

func asPtr(p Val, elem types.Type) *VPtr {
	switch x := p.(type) {
	case *VPtr:
		return x
	case *VS:
		if _, ok := isStruct(elem); ok {
			return &VPtr{Kind: PField, Base: x.T, Root: elem}
		}
		if arr, ok := elem.Underlying().(*types.Array); ok {
			_ = arr
			return &VPtr{Kind: PCell, Base: x.T, Root: elem}
		}
		return &VPtr{Kind: PCell, Base: x.T, Root: elem}
	}
	panic(unsupported(fmt.Sprintf("pointer value of kind %T", p)))
}

func (vc *VC) leafKey(p *VPtr, sub string, l Leaf) (string, *Sort) {
	switch p.Kind {
	case PField:
		return "F$" + typeKey(p.Root) + sub + l.Path, SArr(SRef, l.Sort)
	case PCell:
		return "C$" + typeKey(p.Root) + sub + l.Path, SArr(SRef, l.Sort)
	case PElem:
		return "E$" + typeKey(p.Root) + sub + l.Path, SArr(SRef, SArr(SInt, l.Sort))
	case PGlobal:
		return "G$" + shortPkg(p.Glob.Pkg.Pkg.Path()) + "." + p.Glob.Name() + sub + l.Path, l.Sort
	}
	panic("leafKey")
}

func (vc *VC) nilCheck(st *State, p *VPtr, pos string, what string) {
	if p.Kind == PField || p.Kind == PCell {
		if p.Base.Kind == TVar && strings.HasPrefix(p.Base.Op, "new$") {
			return
		}
		vc.oblige(st, "nil", vc.oname("nil@"+what), pos, "nil pointer dereference: "+what, mkNeq(p.Base, tNull), nil)
	}
}

func (vc *VC) oname(s string) string { return vc.root.String() + "#" + s }

func (vc *VC) loadPtr(st *State, p *VPtr, t types.Type) Val {
	if p.Kind == PLocal {
		v, ok := st.locals[p.Alloc]
		if !ok {
			panic(unsupported("load from unknown local " + p.Alloc.Comment))
		}
		cur := v
		for _, i := range p.Path {
			cur = cur.(*VStruct).F[i]
		}
		return cur
	}
	_, sub := subPath(p.Root, p.Path)
	v := buildVal(t, "", func(l Leaf) *Term {
		key, s := vc.leafKey(p, sub, l)
		arr := vc.famGet(st, key, s)
		var tm *Term
		switch p.Kind {
		case PField, PCell:
			tm = mkSelect(arr, p.Base)
		case PElem:
			tm = mkSelect(mkSelect(arr, p.Base), p.Idx)
		case PGlobal:
			tm = arr
		}
		return tm
	})
	if !vc.noLoadFacts {
		vc.valFacts(st, t, v)
	}
	return v
}

// typeFact assumes range/allocatedness facts of a loaded leaf.
func (vc *VC) typeFact(st *State, tm *Term, l Leaf) {
	if tm.Kind == TInt || tm.Kind == TBool {
		return
	}
	switch l.Part {
	case "":
		if l.Sort == SInt && l.Typ != nil {
			vc.assume(st, rangeFact(tm, l.Typ))
		}
		if l.Sort == SRef {
			vc.assume(st, mkOr(mkEq(tm, tNull), vc.allocatedIn(st, tm)))
		}
	case "base":
		vc.assume(st, mkOr(mkEq(tm, tNull), vc.allocatedIn(st, tm)))
	case "off", "len", "cap":
		vc.assume(st, mkAnd(mkCmp("<=", mkInt(0), tm), mkCmp("<=", tm, mkBig(pow2(62)))))
	}
}

func (vc *VC) sliceFacts(st *State, s *VSlice) {
	vc.assume(st, mkAnd(mkCmp("<=", mkInt(0), s.Off), mkCmp("<=", mkInt(0), s.Len), mkCmp("<=", s.Len, s.Cap), mkCmp("<=", s.Cap, mkBig(pow2(62))),
		mkImplies(mkEq(s.Base, tNull), mkEq(s.Cap, mkInt(0)))))
}

// valFacts assumes type invariants of all leaves of a value.
func (vc *VC) valFacts(st *State, t types.Type, v Val) {
	switch u := t.Underlying().(type) {
	case *types.Struct:
		vs := v.(*VStruct)
		for i := 0; i < u.NumFields(); i++ {
			vc.valFacts(st, u.Field(i).Type(), vs.F[i])
		}
		return
	case *types.Slice:
		s := v.(*VSlice)
		vc.sliceFacts(st, s)
		vc.assume(st, mkOr(mkEq(s.Base, tNull), vc.allocatedIn(st, s.Base)))
		return
	case *types.Tuple:
		vt := v.(*VTuple)
		for i := 0; i < u.Len(); i++ {
			vc.valFacts(st, u.At(i).Type(), vt.E[i])
		}
		return
	}
	if s, ok := v.(*VS); ok {
		vc.typeFact(st, s.T, Leaf{"", s.T.Sort, t, ""})
	}
}

func setPath(v Val, path []int, nv Val) Val {
	if len(path) == 0 {
		return nv
	}
	vs := v.(*VStruct)
	n := &VStruct{F: append([]Val{}, vs.F...)}
	n.F[path[0]] = setPath(vs.F[path[0]], path[1:], nv)
	return n
}

func (vc *VC) storePtr(st *State, p *VPtr, t types.Type, v Val) {
	if p.Kind == PLocal {
		cur, ok := st.locals[p.Alloc]
		if !ok {
			panic(unsupported("store to unknown local"))
		}
		st.locals[p.Alloc] = setPath(cur, p.Path, v)
		return
	}
	_, sub := subPath(p.Root, p.Path)
	if p.Base != nil {
		saved := vc.touchIdx
		vc.touchIdx = p.Base
		defer func() { vc.touchIdx = saved }()
	}
	walkVal(t, "", v, func(l Leaf, tm *Term) {
		key, s := vc.leafKey(p, sub, l)
		arr := vc.famGet(st, key, s)
		switch p.Kind {
		case PField, PCell:
			vc.famSet(st, key, mkStore(arr, p.Base, tm))
		case PElem:
			vc.famSet(st, key, mkStore(arr, p.Base, mkStore(mkSelect(arr, p.Base), p.Idx, tm)))
		case PGlobal:
			st.heap[key] = tm
			vc.famSort[key] = s
		}
	})
}

// havocVal returns a fresh value of type t with type facts assumed.
func (vc *VC) havocVal(st *State, t types.Type, hint string) Val {
	v := buildVal(t, "", func(l Leaf) *Term { return vc.fresh(hint+strings.ReplaceAll(l.Path, ".", "_"), l.Sort) })
	vc.valFacts(st, t, v)
	return v
}

// ---------------------------------------------------------------- frames

type Frame struct {
	vc     *VC
	fn     *ssa.Function
	regs   map[ssa.Value]Val
	bind   []Val
	depth  int
	prefix string // obligation name prefix for inlined frames
	exitBlock *ssa.BasicBlock // while internal clauses are evaluated: the block of the return being checked
	exits  []frameExit
	loops  *loopInfo
	inline bool
	defers []*ssa.Defer
	armed  map[*ssa.Defer]string // pseudo heap key (Bool)
	lspec  map[int]*LoopSpec
	loopEntry map[*ssa.BasicBlock]*loopCtx
	top    bool
}

type loopCtx struct {
	measure *Term
	head    *State
}

type frameExit struct {
	st      *State
	results []Val
	panics  bool
	block   *ssa.BasicBlock
}

type loopInfo struct {
	heads    []*ssa.BasicBlock          // in ordinal order
	ordinal  map[*ssa.BasicBlock]int    // head -> ordinal
	body     map[*ssa.BasicBlock]map[*ssa.BasicBlock]bool
	backEdge map[[2]*ssa.BasicBlock]bool
	order    []*ssa.BasicBlock // reverse postorder ignoring back edges
}

func analyzeLoops(fn *ssa.Function) *loopInfo {
	li := &loopInfo{ordinal: map[*ssa.BasicBlock]int{}, body: map[*ssa.BasicBlock]map[*ssa.BasicBlock]bool{}, backEdge: map[[2]*ssa.BasicBlock]bool{}}
	if len(fn.Blocks) == 0 {
		return li
	}
	for _, b := range fn.Blocks {
		for _, s := range b.Succs {
			if s.Dominates(b) {
				li.backEdge[[2]*ssa.BasicBlock{b, s}] = true
				if li.body[s] == nil {
					li.body[s] = map[*ssa.BasicBlock]bool{s: true}
				}
				// natural loop: nodes reaching b without going through s
				stack := []*ssa.BasicBlock{b}
				for len(stack) > 0 {
					x := stack[len(stack)-1]
					stack = stack[:len(stack)-1]
					if li.body[s][x] {
						continue
					}
					li.body[s][x] = true
					for _, p := range x.Preds {
						stack = append(stack, p)
					}
				}
			}
		}
	}
	for h := range li.body {
		li.heads = append(li.heads, h)
	}
	sort.Slice(li.heads, func(i, j int) bool { return li.heads[i].Index < li.heads[j].Index })
	for i, h := range li.heads {
		li.ordinal[h] = i
	}
	// RPO ignoring back edges
	seen := map[*ssa.BasicBlock]bool{}
	var post []*ssa.BasicBlock
	var dfs func(b *ssa.BasicBlock)
	dfs = func(b *ssa.BasicBlock) {
		seen[b] = true
		for _, s := range b.Succs {
			if li.backEdge[[2]*ssa.BasicBlock{b, s}] || seen[s] {
				continue
			}
			dfs(s)
		}
		post = append(post, b)
	}
	dfs(fn.Blocks[0])
	if fn.Recover != nil && !seen[fn.Recover] {
		// recover block is not executed
	}
	for i := len(post) - 1; i >= 0; i-- {
		li.order = append(li.order, post[i])
	}
	return li
}

func (vc *VC) pos(p token.Pos) string {
	if !p.IsValid() {
		return ""
	}
	pp := vc.eng.fset.Position(p)
	f := pp.Filename
	f = strings.TrimPrefix(f, vc.eng.repoDir+"/")
	return fmt.Sprintf("%s:%d", f, pp.Line)
}

func (fr *Frame) name(s string) string {
	if fr.prefix != "" {
		return fr.vc.oname(fr.prefix + s)
	}
	return fr.vc.oname(s)
}

func (fr *Frame) get(v ssa.Value) Val {
	switch x := v.(type) {
	case *ssa.Const:
		return fr.vc.constVal(x)
	case *ssa.Global:
		return &VPtr{Kind: PGlobal, Glob: x, Root: x.Type().(*types.Pointer).Elem()}
	case *ssa.Function:
		return &VFunc{Fn: x}
	case *ssa.FreeVar:
		for i, fv := range fr.fn.FreeVars {
			if fv == x {
				if i < len(fr.bind) {
					return fr.bind[i]
				}
			}
		}
		panic(unsupported("free variable " + x.Name() + " without binding"))
	case *ssa.Builtin:
		panic(unsupported("builtin used as value"))
	}
	r, ok := fr.regs[v]
	if !ok {
		panic(unsupported(fmt.Sprintf("value %s (%T) not computed", v.Name(), v)))
	}
	return r
}

func (vc *VC) strLit(s string) *Term {
	if s == "" {
		vc.strLits[emptyStr.Op] = ""
		return emptyStr
	}
	var sb strings.Builder
	for _, c := range []byte(s) {
		if c >= 'a' && c <= 'z' || c >= 'A' && c <= 'Z' || c >= '0' && c <= '9' {
			sb.WriteByte(c)
		} else {
			sb.WriteString(fmt.Sprintf("_%02x", c))
		}
	}
	name := "str!" + sb.String()
	if len(name) > 60 {
		name = fmt.Sprintf("%s!h%x", name[:50], hashStr(s))
	}
	vc.strLits[name] = s
	return mkVar(name, SStr)
}

func hashStr(s string) uint32 {
	var h uint32 = 2166136261
	for i := 0; i < len(s); i++ {
		h ^= uint32(s[i])
		h *= 16777619
	}
	return h
}

func (vc *VC) constVal(c *ssa.Const) Val {
	t := c.Type()
	if c.Value == nil {
		return zeroVal(t)
	}
	switch leafSort(t) {
	case SBool:
		return &VS{mkBool(constant.BoolVal(c.Value))}
	case SInt:
		v := constant.ToInt(c.Value)
		if v.Kind() != constant.Int {
			return &VS{mkInt(0)}
		}
		bi, ok := new(big.Int).SetString(v.ExactString(), 10)
		if !ok {
			bi = big.NewInt(0)
		}
		return &VS{mkBig(bi)}
	case SReal:
		f := constant.ToFloat(c.Value)
		return &VS{realLit(f)}
	case SStr:
		return &VS{vc.strLit(constant.StringVal(c.Value))}
	}
	return zeroVal(t)
}

func realLit(f constant.Value) *Term {
	num := constant.Num(f)
	den := constant.Denom(f)
	ns, ds := num.ExactString(), den.ExactString()
	neg := strings.HasPrefix(ns, "-")
	ns = strings.TrimPrefix(ns, "-")
	s := ns + ".0"
	if ds != "1" {
		s = "(/ " + ns + ".0 " + ds + ".0)"
	}
	if neg {
		s = "(- " + s + ")"
	}
	return mkReal(s)
}

// ---------------------------------------------------------------- function execution

type execResult struct {
	st      *State
	results []Val
	exits   []frameExit
	fr      *Frame
}

// execFunc runs fn from state st with the given arguments; returns the merged exit state (nil if no normal exit).
func (vc *VC) execFunc(fn *ssa.Function, args []Val, bind []Val, st *State, depth int, prefix string, top bool) *execResult {
	if len(fn.Blocks) == 0 {
		panic(unsupported("function without body: " + fn.String()))
	}
	if depth > 8 {
		panic(unsupported("inline depth exceeded at " + fn.String()))
	}
	fr := &Frame{vc: vc, fn: fn, regs: map[ssa.Value]Val{}, bind: bind, depth: depth, prefix: prefix, armed: map[*ssa.Defer]string{}, top: top,
		loopEntry: map[*ssa.BasicBlock]*loopCtx{}}
	fr.loops = analyzeLoops(fn)
	if top && vc.fc != nil {
		fr.lspec = vc.fc.Loops
	} else if c := vc.eng.contracts.Funcs[fn.String()]; c != nil {
		fr.lspec = c.Loops
	}
	for i, p := range fn.Params {
		if i < len(args) {
			fr.regs[p] = args[i]
		}
	}
	for _, b := range fn.Blocks {
		for _, in := range b.Instrs {
			if d, ok := in.(*ssa.Defer); ok {
				fr.defers = append(fr.defers, d)
				key := fmt.Sprintf("$defer!%d!%d", vc.n, len(fr.defers))
				vc.n++
				fr.armed[d] = key
				st.heap[key] = tFalse
				vc.famSort[key] = SBool
				if fr.loops.inAnyLoop(b) {
					panic(unsupported("defer inside a loop in " + fn.String()))
				}
			}
		}
	}
	out := map[*ssa.BasicBlock]*State{}        // exit states per block
	edgeCond := map[[2]*ssa.BasicBlock]*Term{} // condition on edge
	for _, b := range fr.loops.order {
		var in *State
		if b == fn.Blocks[0] {
			in = st
		} else {
			var preds []*State
			var conds []*Term
			var pblocks []*ssa.BasicBlock
			for _, p := range b.Preds {
				if fr.loops.backEdge[[2]*ssa.BasicBlock{p, b}] {
					continue
				}
				ps, ok := out[p]
				if !ok || ps == nil {
					continue
				}
				c := edgeCond[[2]*ssa.BasicBlock{p, b}]
				if c == nil {
					c = tTrue
				}
				if isFalse(c) || isFalse(ps.reach) {
					continue
				}
				preds = append(preds, ps)
				conds = append(conds, c)
				pblocks = append(pblocks, p)
			}
			if len(preds) == 0 {
				continue
			}
			in = vc.mergeStates(preds, conds, fmt.Sprintf("b%d", b.Index))
			// phis
			for _, instr := range b.Instrs {
				phi, ok := instr.(*ssa.Phi)
				if !ok {
					break
				}
				var vals []Val
				var gs []*Term
				for i, p := range b.Preds {
					for j, pb := range pblocks {
						if pb == p {
							// guard against duplicate pred blocks (same block twice): use first
							_ = j
							vals = append(vals, fr.get(phi.Edges[i]))
							gs = append(gs, mkAnd(preds[j].reach, conds[j]))
							break
						}
					}
				}
				fr.regs[phi] = vc.mergeVals(phi.Type(), vals, gs, in, "phi")
			}
		}
		cur := in
		if _, isHead := fr.loops.body[b]; isHead {
			cur = fr.enterLoop(b, in)
		}
		alive := true
		for _, instr := range b.Instrs {
			if _, ok := instr.(*ssa.Phi); ok {
				continue
			}
			cur, alive = fr.step(b, instr, cur, edgeCond)
			if !alive {
				break
			}
		}
		if alive {
			out[b] = cur
			// back edges from b
			for _, s := range b.Succs {
				if fr.loops.backEdge[[2]*ssa.BasicBlock{b, s}] {
					c := edgeCond[[2]*ssa.BasicBlock{b, s}]
					if c == nil {
						c = tTrue
					}
					fr.closeLoop(s, b, cur, c)
				}
			}
		}
	}
	// merge exits
	var sts []*State
	var conds []*Term
	for _, e := range fr.exits {
		sts = append(sts, e.st)
		conds = append(conds, tTrue)
	}
	if len(sts) == 0 {
		return nil
	}
	merged := vc.mergeStates(sts, conds, "ret")
	var results []Val
	rt := fn.Signature.Results()
	for i := 0; i < rt.Len(); i++ {
		var vals []Val
		var gs []*Term
		for _, e := range fr.exits {
			vals = append(vals, e.results[i])
			gs = append(gs, e.st.reach)
		}
		results = append(results, vc.mergeVals(rt.At(i).Type(), vals, gs, merged, "res"))
	}
	return &execResult{st: merged, results: results, exits: fr.exits, fr: fr}
}

func (li *loopInfo) inAnyLoop(b *ssa.BasicBlock) bool {
	for _, body := range li.body {
		if body[b] {
			return true
		}
	}
	return false
}

func (vc *VC) mergeStates(sts []*State, conds []*Term, hint string) *State {
	if len(sts) == 1 && isTrue(conds[0]) {
		return sts[0].clone()
	}
	var guards []*Term
	for i, s := range sts {
		guards = append(guards, mkAnd(s.reach, conds[i]))
	}
	n := &State{heap: map[string]*Term{}, locals: map[*ssa.Alloc]Val{}}
	if len(sts) == 1 {
		n = sts[0].clone()
		r := vc.fresh("reach$"+hint, SBool)
		vc.assumeGlobal(mkEq(r, guards[0]))
		n.reach = r
		return n
	}
	r := vc.fresh("reach$"+hint, SBool)
	vc.assumeGlobal(mkEq(r, mkOr(guards...)))
	n.reach = r
	// heap
	keys := map[string]bool{}
	for _, s := range sts {
		for k := range s.heap {
			keys[k] = true
		}
	}
	for _, k := range sortedKeys(keys) {
		var ts []*Term
		same := true
		for _, s := range sts {
			t, ok := s.heap[k]
			if !ok {
				t = mkVar("H$"+k, vc.famSort[k])
			}
			ts = append(ts, t)
			if !termEq(t, ts[0]) {
				same = false
			}
		}
		if same {
			n.heap[k] = ts[0]
			continue
		}
		if !vc.accessed[k] && !strings.HasPrefix(k, "$") {
			// never read or written directly so far (only havocked by callee footprints): merge to a fresh
			// unconstrained version (over-approximation, keeps queries small)
			n.heap[k] = vc.fresh("H$"+k, ts[0].Sort)
			continue
		}
		m := vc.fresh("H$"+k, ts[0].Sort)
		for i, t := range ts {
			vc.assumeGlobal(mkImplies(guards[i], mkEq(m, t)))
		}
		n.heap[k] = m
	}
	// locals
	allocs := map[*ssa.Alloc]bool{}
	for _, s := range sts {
		for a := range s.locals {
			allocs[a] = true
		}
	}
	for a := range allocs {
		var vals []Val
		var gs []*Term
		for i, s := range sts {
			if v, ok := s.locals[a]; ok {
				vals = append(vals, v)
				gs = append(gs, guards[i])
			}
		}
		if len(vals) == 0 {
			continue
		}
		n.locals[a] = vc.mergeVals(a.Type().(*types.Pointer).Elem(), vals, gs, n, "loc")
	}
	return n
}

func (vc *VC) mergeVals(t types.Type, vals []Val, guards []*Term, st *State, hint string) Val {
	if len(vals) == 0 {
		panic(unsupported("merge of zero values"))
	}
	if len(vals) == 1 {
		return vals[0]
	}
	// non-flattenable values must be identical
	switch vals[0].(type) {
	case *VPtr, *VClosure, *VFunc, *VIter:
		for _, v := range vals[1:] {
			if fmt.Sprintf("%v", v) != fmt.Sprintf("%v", vals[0]) {
				// allow closures/pointers that differ only when never used later: keep first, flag
				vc.note("merge of distinct pointer/closure values approximated by the first (" + hint + ")")
				break
			}
		}
		return vals[0]
	}
	// leafwise
	leafTerms := make([][]*Term, len(vals))
	for i, v := range vals {
		func() {
			defer func() {
				if r := recover(); r != nil {
					if _, ok := r.(unsupportedErr); ok {
						leafTerms[i] = nil
						return
					}
					panic(r)
				}
			}()
			walkVal(t, "", v, func(l Leaf, tm *Term) { leafTerms[i] = append(leafTerms[i], tm) })
		}()
	}
	idx := 0
	return buildVal(t, "", func(l Leaf) *Term {
		defer func() { idx++ }()
		var ts []*Term
		var gs []*Term
		for i := range vals {
			if leafTerms[i] == nil || idx >= len(leafTerms[i]) {
				continue
			}
			ts = append(ts, leafTerms[i][idx])
			gs = append(gs, guards[i])
		}
		if len(ts) == 0 {
			return vc.fresh("m$"+hint, l.Sort)
		}
		same := true
		for _, x := range ts[1:] {
			if !termEq(x, ts[0]) {
				same = false
			}
		}
		if same {
			return ts[0]
		}
		if len(ts) == 2 && termSize(ts[0]) < 6 && termSize(ts[1]) < 6 && termSize(gs[0]) < 4 {
			return mkIte(gs[0], ts[0], ts[1])
		}
		m := vc.fresh("m$"+hint, l.Sort)
		for i, x := range ts {
			vc.assumeGlobal(mkImplies(gs[i], mkEq(m, x)))
		}
		return m
	})
}

// ---------------------------------------------------------------- loops

// modified set of a loop: locals, heap families (coarse), computed syntactically.
func (fr *Frame) loopWrites(h *ssa.BasicBlock) (map[*ssa.Alloc]bool, *writeSet) {
	locals := map[*ssa.Alloc]bool{}
	ws := newWriteSet()
	for b := range fr.loops.body[h] {
		for _, in := range b.Instrs {
			fr.vc.eng.instrWrites(in, locals, ws, 0)
		}
	}
	return locals, ws
}

func (fr *Frame) enterLoop(h *ssa.BasicBlock, in *State) *State {
	vc := fr.vc
	ord := fr.loops.ordinal[h]
	var spec *LoopSpec
	if fr.lspec != nil {
		spec = fr.lspec[ord]
	}
	// 1. invariants hold on entry
	if spec != nil {
		for _, c := range spec.Invariants {
			g := vc.evalClause(fr, c, in, vc.entry, nil)
			vc.oblige(in, "invariant", fr.name(fmt.Sprintf("loop%d.%s@entry", ord, c.Name)), vc.pos(h.Instrs[0].Pos()), "loop invariant on entry: "+c.Src, g, c.Props)
		}
	}
	// 2. havoc
	cur := in.clone()
	locals, ws := fr.loopWrites(h)
	for a := range locals {
		if old, ok := cur.locals[a]; ok {
			nv := vc.havocVal(cur, a.Type().(*types.Pointer).Elem(), "lh$"+a.Comment)
			cur.locals[a] = nv
			// auto invariant for monotone counters: every store in the loop is `a = a + positive constant`
			if ov, ok := old.(*VS); ok && ov.T.Sort == SInt && fr.monotoneCounter(h, a) {
				vc.assume(cur, mkAnd(mkCmp(">=", nv.(*VS).T, ov.T), mkCmp("<=", nv.(*VS).T, mkBig(pow2(62)))))
				vc.note("monotone loop counters are assumed not to overflow")
			}
		}
	}
	vc.havocWriteSet(cur, ws)
	// iterators' visited sets are havocked too
	for k := range cur.heap {
		if strings.HasPrefix(k, "$visited!") {
			cur.heap[k] = vc.fresh(k, vc.famSort[k])
		}
	}
	// phis at head
	for _, instr := range h.Instrs {
		phi, ok := instr.(*ssa.Phi)
		if !ok {
			break
		}
		entryVal := fr.regs[phi]
		nv := vc.havocVal(cur, phi.Type(), "phi$"+phi.Name())
		fr.regs[phi] = nv
		// auto invariant for counting phis: phi >= entry constant when incremented by positive constant
		if ev, ok := entryVal.(*VS); ok && ev.T.Kind == TInt {
			for i, p := range h.Preds {
				if fr.loops.backEdge[[2]*ssa.BasicBlock{p, h}] {
					if bo, ok := phi.Edges[i].(*ssa.BinOp); ok && bo.Op == token.ADD && bo.X == phi {
						if c, ok := bo.Y.(*ssa.Const); ok && c.Value != nil && constant.Sign(c.Value) > 0 {
							vc.assume(cur, mkCmp(">=", nv.(*VS).T, ev.T))
						}
					}
				}
			}
		}
	}
	lc := &loopCtx{head: cur}
	fr.loopEntry[h] = lc
	if spec != nil {
		for _, c := range spec.Invariants {
			g := vc.evalClause(fr, c, cur, vc.entry, nil)
			untag := vc.withTag('I')
			vc.tagName = c.Name
			vc.assume(cur, g)
			vc.tagName = ""
			untag()
		}
		if spec.Decreases != nil {
			m := vc.evalTerm(fr, spec.Decreases, cur, vc.entry, nil)
			lc.measure = m
		}
	}
	return cur
}

func (fr *Frame) closeLoop(h, from *ssa.BasicBlock, st *State, cond *Term) {
	vc := fr.vc
	ord := fr.loops.ordinal[h]
	var spec *LoopSpec
	if fr.lspec != nil {
		spec = fr.lspec[ord]
	}
	s2 := st.clone()
	s2.reach = mkAnd(st.reach, cond)
	// phi values on the back edge
	saved := map[*ssa.Phi]Val{}
	for _, instr := range h.Instrs {
		phi, ok := instr.(*ssa.Phi)
		if !ok {
			break
		}
		saved[phi] = fr.regs[phi]
		for i, p := range h.Preds {
			if p == from {
				fr.regs[phi] = fr.get(phi.Edges[i])
			}
		}
	}
	if spec != nil {
		for _, c := range spec.Invariants {
			g := vc.evalClause(fr, c, s2, vc.entry, nil)
			vc.curHasUses, vc.curUses = c.HasUses, append([]string{c.Name}, c.Uses...)
			vc.oblige(s2, "invariant", fr.name(fmt.Sprintf("loop%d.%s@back", ord, c.Name)), vc.pos(from.Instrs[len(from.Instrs)-1].Pos()), "loop invariant preserved: "+c.Src, g, c.Props)
			vc.curHasUses, vc.curUses = false, nil
		}
		if spec.Decreases != nil {
			lc := fr.loopEntry[h]
			m2 := vc.evalTerm(fr, spec.Decreases, s2, vc.entry, nil)
			vc.oblige(s2, "decreases", fr.name(fmt.Sprintf("loop%d.decreases", ord)), vc.pos(h.Instrs[0].Pos()), "loop measure decreases and is bounded below: "+spec.Decreases.Src,
				mkAnd(mkCmp(">=", lc.measure, mkInt(0)), mkCmp("<", m2, lc.measure)), spec.Decreases.Props)
		}
	}
	if (spec == nil || spec.Decreases == nil) && fr.top && vc.fc != nil && vc.fc.Flags["termination"] != "" {
		if !(strings.HasPrefix(h.Comment, "rangeindex") || strings.HasPrefix(h.Comment, "rangeiter")) {
			vc.oblige(s2, "termination", fr.name(fmt.Sprintf("loop%d.decreases", ord)), vc.pos(h.Instrs[0].Pos()), "loop has no decreases measure", tFalse, nil)
		}
	}
	for phi, v := range saved {
		fr.regs[phi] = v
	}
}

// monotoneCounter: all stores to local alloc a inside loop h have the form a = a + c with constant c > 0.
func (fr *Frame) monotoneCounter(h *ssa.BasicBlock, a *ssa.Alloc) bool {
	n := 0
	for b := range fr.loops.body[h] {
		for _, in := range b.Instrs {
			st, ok := in.(*ssa.Store)
			if !ok || st.Addr != ssa.Value(a) {
				continue
			}
			n++
			bo, ok := st.Val.(*ssa.BinOp)
			if !ok || bo.Op != token.ADD {
				return false
			}
			ld, ok := bo.X.(*ssa.UnOp)
			if !ok || ld.Op != token.MUL || ld.X != ssa.Value(a) {
				return false
			}
			c, ok := bo.Y.(*ssa.Const)
			if !ok || c.Value == nil || constant.Sign(c.Value) <= 0 {
				return false
			}
		}
	}
	return n > 0
}
