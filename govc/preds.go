package main

// Opaque (abstract) spec functions outside their declaring package.
//
// An opaque function f of receiver type T with parameters p1..pn is represented by a ghost heap family
//     P$pkg.T.f : Ref -> p1 -> ... -> pn -> result
// read at the receiver. It depends on the heap only through its declared `reads` footprint, so whenever
// the heap changes the family gets a new version together with a frame axiom
//     forall r. (reads-footprint of r is disjoint from the changed locations)  ==>  P'[r] == P[r]
// Changes that cannot be related to a receiver (coarse havoc, direct stores into a read family) havoc the
// family without a frame axiom. Inside the declaring package the definition is used directly.

import (
	"go/types"
	"strings"
)

type predInfo struct {
	pf   *PureFunc
	key  string
	sort *Sort
	recv types.Type
	keys map[string]bool // heap families of the reads clause
}

func predKey(pf *PureFunc) string {
	return "P$" + shortPkg(pf.PkgPath) + "." + recvTypeName(pf.RecvType) + "." + pf.Name
}

// predFamily returns the ghost family key and sort of an opaque function (sub: environment in which its
// parameter and result types resolve).
func (vc *VC) predFamily(pf *PureFunc, sub *SpecEnv) (string, *Sort) {
	key := predKey(pf)
	if pi, ok := vc.preds[key]; ok {
		return key, pi.sort
	}
	rs := leafSort(sub.resolveType(pf.Result))
	for i := len(pf.Params) - 1; i >= 0; i-- {
		rs = SArr(leafSort(sub.resolveType(pf.Params[i].Type)), rs)
	}
	srt := SArr(SRef, rs)
	pi := &predInfo{pf: pf, key: key, sort: srt, recv: sub.resolveType(pf.RecvType), keys: map[string]bool{}}
	if vc.preds == nil {
		vc.preds = map[string]*predInfo{}
	}
	vc.preds[key] = pi
	// family-level footprint (on a symbolic receiver)
	for _, t := range vc.predReads(pi, mkVar("r?pred", SRef), &State{heap: map[string]*Term{}, locals: nil, reach: tTrue}) {
		pi.keys[t.key] = true
	}
	return key, srt
}

// predReads evaluates the reads clause of pi for receiver term r in state st.
func (vc *VC) predReads(pi *predInfo, r *Term, st *State) []modTarget {
	pf := pi.pf
	saved := vc.noLoadFacts
	vc.noLoadFacts = true
	defer func() { vc.noLoadFacts = saved }()
	env := vc.newEnv(vc.eng.typesPkg(pf.PkgPath), st, st)
	env.vars[pf.RecvName] = TV{&VS{r}, pi.recv}
	// parameters may be mentioned by the reads clause (all(e), elems(e.value)): such footprints cannot be
	// tied to the receiver alone; they are treated as "may overlap anything of that family"
	for _, p := range pf.Params {
		pt := env.resolveType(p.Type)
		env.vars[p.Name] = TV{buildVal(pt, "", func(l Leaf) *Term { return mkVar("p?"+p.Name+strings.ReplaceAll(l.Path, ".", "_"), l.Sort) }), pt}
	}
	return env.modTargets(pf.Reads)
}

// allPreds registers every opaque function not transparent in this VC (so that frames are maintained from the
// first heap change on, not only after the first use).
func (vc *VC) allPreds() []*predInfo {
	if !vc.predsInit {
		vc.predsInit = true
		for _, k := range sortedKeys(vc.eng.contracts.Pures) {
			pf := vc.eng.contracts.Pures[k]
			if !pf.Opaque || pf.RecvType == nil {
				continue
			}
			if vc.root != nil && fnPkgPath(vc.root) == pf.PkgPath {
				continue
			}
			if vc.root == nil {
				continue
			}
			if vc.onlyPreds != nil && !vc.onlyPreds[predKey(pf)] {
				continue
			}
			func() {
				defer func() { recover() }()
				sub := vc.newEnv(vc.eng.typesPkg(pf.PkgPath), nil, nil)
				vc.predFamily(pf, sub)
			}()
		}
	}
	var out []*predInfo
	for _, k := range sortedKeys(vc.preds) {
		out = append(out, vc.preds[k])
	}
	return out
}

// framePreds: the heap changed from pre to st exactly at targets ts (precise modifies of a call).
func (vc *VC) framePreds(pre, st *State, ts []modTarget) {
	defer vc.withTag('F')()
	for _, pi := range vc.allPreds() {
		overlap := false
		for _, t := range ts {
			if pi.keys[t.key] {
				overlap = true
			}
		}
		if !overlap {
			continue
		}
		r := mkVar("r?frame", SRef)
		reads := vc.predReads(pi, r, pre)
		var conds []*Term
		whole := false
		for _, t := range ts {
			if !pi.keys[t.key] {
				continue
			}
			for _, rd := range reads {
				if rd.key != t.key {
					continue
				}
				if t.idx == nil || rd.idx == nil || !dependsOnlyOn(rd.idx, r) {
					whole = true
					continue
				}
				conds = append(conds, mkNeq(rd.idx, t.idx))
			}
		}
		old := vc.famGet(pre, pi.key, pi.sort)
		nw := vc.fresh("H$"+pi.key, pi.sort)
		st.heap[pi.key] = nw
		vc.famSort[pi.key] = pi.sort
		if whole {
			continue
		}
		vc.assume(st, mkForall([]*Term{r}, mkImplies(mkAnd(conds...), mkEq(mkSelect(nw, r), mkSelect(old, r))), []*Term{mkSelect(nw, r)}))
	}
}

// dependsOnlyOn: every free variable named *?* (symbolic receiver/parameter placeholders) in t is r.
func dependsOnlyOn(t *Term, r *Term) bool {
	vars := map[string]*Sort{}
	collectSyms(t, vars, map[string]*Term{}, map[string]bool{})
	for v := range vars {
		if strings.HasPrefix(v, "p?") {
			return false
		}
	}
	return true
}

// withTouch marks the object written by the following heap updates (usage: defer vc.withTouch(obj)()).
func (vc *VC) withTouch(idx *Term) func() {
	saved := vc.touchIdx
	vc.touchIdx = idx
	return func() { vc.touchIdx = saved }
}

// touchFamily: family key was written directly (store, map update, copy, coarse havoc): every abstract function
// reading it loses its value for all receivers.
func (vc *VC) touchFamily(st *State, key string) {
	if vc.suppressTouch || strings.HasPrefix(key, "$") || strings.HasPrefix(key, "P$") {
		return
	}
	if vc.touchIdx != nil {
		// the write is at a known object: precise frame (receivers whose footprint avoids that object keep their values)
		relevant := false
		for _, pi := range vc.allPreds() {
			if pi.keys[key] {
				relevant = true
			}
		}
		if relevant {
			vc.suppressTouch = true
			vc.framePreds(st, st, []modTarget{{key: key, sort: vc.famSort[key], idx: vc.touchIdx}})
			vc.suppressTouch = false
		}
		return
	}
	for _, pi := range vc.allPreds() {
		if pi.keys[key] {
			st.heap[pi.key] = vc.fresh("H$"+pi.key, pi.sort)
			vc.famSort[pi.key] = pi.sort
		}
	}
}
