package main

// Iterating methods: an interface method flagged `flag iterates` in its (assumed) abstract contract calls the
// function literal it is given once per element it yields, until the literal returns false or the elements are
// exhausted. At a call site the literal's body is the body of a *virtual loop* of the calling function:
//   - its invariant comes from the caller's contract (`loop N invariant`, N counted after the real loops, in
//     order of appearance of the iterating calls),
//   - the invariant is checked on entry, the literal's write set (and the method's modifies clause) is havocked,
//     the invariant is assumed, the literal is executed once on arguments that satisfy the method's `yields`
//     clauses, and the invariant is checked again if the literal asks to continue,
//   - the state after the call is the merge of "exhausted" (invariant holds) and "stopped" (the state in which
//     the literal returned false).
// Termination of the iteration is part of the method's assumed contract.

import (
	"fmt"
	"go/types"

	"golang.org/x/tools/go/ssa"
)

// iteratesContract: the (assumed) contract of an iterating method called by c, or nil. Interface methods carry
// it as an abstract interface contract, methods of external structs (btree.BTree.Ascend) as an extern contract.
func (e *Engine) iteratesContract(c *ssa.CallCommon) *FuncContract {
	if c.IsInvoke() {
		if ifc := e.ifaceContract(c); ifc != nil && ifc.Flags["iterates"] != "" {
			return ifc
		}
		return nil
	}
	if fn, ok := c.Value.(*ssa.Function); ok {
		if fc := e.contracts.Funcs[fn.String()]; fc != nil && fc.Flags["iterates"] != "" {
			return fc
		}
	}
	return nil
}

func (fr *Frame) iterOrdinal(site ssa.Instruction) int {
	n := len(fr.loops.heads)
	k := 0
	for _, b := range fr.fn.Blocks {
		for _, in := range b.Instrs {
			ci, ok := in.(ssa.CallInstruction)
			if !ok {
				continue
			}
			if fr.vc.eng.iteratesContract(ci.Common()) == nil {
				continue
			}
			if in == site {
				return n + k
			}
			k++
		}
	}
	return -1
}

// iteratingCalls: number of call sites of iterating interface methods in fn (virtual loops).
func (e *Engine) iteratingCalls(fn *ssa.Function) int {
	k := 0
	for _, b := range fn.Blocks {
		for _, in := range b.Instrs {
			if ci, ok := in.(ssa.CallInstruction); ok && e.iteratesContract(ci.Common()) != nil {
				k++
			}
		}
	}
	return k
}

func (fr *Frame) iterateCall(site ssa.Instruction, c *ssa.CallCommon, ifc *FuncContract, args []Val, st *State, pos string) (Val, *State, bool) {
	vc := fr.vc
	var clo *VClosure
	cloIdx := -1
	for i, a := range args {
		if cl, ok := a.(*VClosure); ok {
			clo, cloIdx = cl, i
		}
	}
	if clo == nil {
		panic(unsupported("iterating method " + ifc.Key + " called with something other than a function literal"))
	}
	ord := fr.iterOrdinal(site)
	var spec *LoopSpec
	if fr.lspec != nil && ord >= 0 {
		spec = fr.lspec[ord]
	}
	recvT := c.Value.Type()
	mname := ""
	if c.IsInvoke() {
		mname = c.Method.Name()
	} else {
		sfn := c.Value.(*ssa.Function)
		recvT = sfn.Signature.Recv().Type()
		mname = sfn.Name()
	}
	var pkg *types.Package
	if n := namedOf(recvT); n != nil {
		pkg = n.Obj().Pkg()
	}
	sig := c.Signature()
	// requires of the iterating method
	env := vc.ifaceEnv(sig, recvT, pkg, ifc, args, st, st)
	for _, rc := range ifc.Requires {
		g := env.clause(rc)
		vc.oblige(st, "requires", fr.name("pre."+mname+"."+rc.Name+"@"+shortPos(pos)), pos, "precondition of "+ifc.Key+": "+rc.Src, g, rc.Props)
		vc.assume(st, g)
	}
	// the elements already yielded, as a ghost set over the literal's first (scalar) argument: visited(x)
	csig0 := clo.Fn.Signature
	var visKey string
	if csig0.Params().Len() > 0 {
		if ks := leafSort(csig0.Params().At(0).Type()); ks == SInt || ks == SRef || ks == SStr {
			if _, isStructT := isStruct(csig0.Params().At(0).Type()); !isStructT {
				visKey = fmt.Sprintf("$visited!%d", vc.n)
				vc.n++
				st.heap[visKey] = mkConstArr(SArr(ks, SBool), tFalse)
				vc.famSort[visKey] = SArr(ks, SBool)
			}
		}
	}
	// 1. invariant on entry
	if spec != nil {
		for _, ic := range spec.Invariants {
			g := vc.evalClause(fr, ic, st, vc.entry, nil)
			vc.oblige(st, "invariant", fr.name(fmt.Sprintf("loop%d.%s@entry", ord, ic.Name)), pos, "iteration invariant on entry: "+ic.Src, g, ic.Props)
		}
	}
	// 2. havoc what the literal (and the method) may write
	pre := st.clone()
	cur := st.clone()
	ws := vc.eng.funcWritesBody(clo.Fn)
	if ws.all {
		panic(unsupported("function literal with unknown footprint passed to " + ifc.Key))
	}
	vc.havocWriteSet(cur, ws)
	if visKey != "" {
		cur.heap[visKey] = vc.fresh(visKey, vc.famSort[visKey])
	}
	vc.havocTargets(cur, env.modTargets(ifc.Modifies))
	vc.growAlloc(cur)
	if ifc.Flags["clock"] != "" {
		vc.advanceClock(cur)
	}
	if spec != nil {
		untag := vc.withTag('I')
		for _, ic := range spec.Invariants {
			vc.assume(cur, vc.evalClause(fr, ic, cur, vc.entry, nil))
		}
		untag()
	}
	head := cur.clone()
	// 3. one invocation on arbitrary yielded arguments
	csig := clo.Fn.Signature
	var cargs []Val
	for i := 0; i < csig.Params().Len(); i++ {
		cargs = append(cargs, vc.havocVal(cur, csig.Params().At(i).Type(), fmt.Sprintf("yield%d", i)))
	}
	yenv := vc.ifaceEnv(sig, recvT, pkg, ifc, args, cur, pre)
	for i, a := range cargs {
		yenv.vars[fmt.Sprintf("arg%d", i)] = TV{a, csig.Params().At(i).Type()}
	}
	for _, yc := range ifc.Yields {
		vc.assume(cur, yenv.clause(yc))
	}
	if visKey != "" {
		// every element is yielded at most once
		a0 := scalarOf(cargs[0], csig.Params().At(0).Type())
		vc.assume(cur, mkNot(mkSelect(cur.heap[visKey], a0)))
		cur.heap[visKey] = mkStore(cur.heap[visKey], a0, tTrue)
	}
	// exhausted: the method's `exhausts` clauses hold in the state at the head
	exh := vc.fresh("iter$exhausted", SBool)
	if len(ifc.Exhausts) > 0 {
		henv := vc.ifaceEnv(sig, recvT, pkg, ifc, args, head, pre)
		for _, xc := range ifc.Exhausts {
			vc.assume(head, mkImplies(exh, henv.clause(xc)))
		}
	}
	if !(len(clo.Fn.Blocks) > 0 && vc.eng.isOlric(clo.Fn) && vc.eng.loopFree(clo.Fn)) {
		panic(unsupported("function literal passed to " + ifc.Key + " is not a loop-free literal of this module"))
	}
	res := vc.execFunc(clo.Fn, cargs, clo.Bind, cur, fr.depth+1, fr.prefix+clo.Fn.Name()+".", false)
	vc.note("iteration by callback modelled as a loop over the literal's body (assumed contract of " + ifc.Key + ": finitely many invocations, arguments as in its yields clauses)")
	_ = cloIdx
	if res == nil {
		// the literal never returns normally (panics): only the exhausted state continues
		return nil, head, true
	}
	cont := scalarOf(res.results[0], csig.Results().At(0).Type())
	// 4. invariant preserved when the literal asks for more
	if spec != nil {
		back := res.st.clone()
		back.reach = mkAnd(back.reach, cont)
		for _, ic := range spec.Invariants {
			g := vc.evalClause(fr, ic, back, vc.entry, nil)
			vc.oblige(back, "invariant", fr.name(fmt.Sprintf("loop%d.%s@back", ord, ic.Name)), pos, "iteration invariant preserved: "+ic.Src, g, ic.Props)
		}
	}
	// 5. after the call: exhausted, or stopped by the literal
	stopped := res.st
	merged := vc.mergeStates([]*State{head, stopped}, []*Term{exh, mkAnd(mkNot(exh), mkNot(cont))}, "iter")
	if visKey != "" {
		delete(merged.heap, visKey)
	}
	// results of the iterating method itself (none for Range-like methods)
	var results []Val
	for i := 0; i < sig.Results().Len(); i++ {
		results = append(results, vc.havocVal(merged, sig.Results().At(i).Type(), "r$"+mname))
	}
	post := vc.ifaceEnv(sig, recvT, pkg, ifc, args, merged, pre)
	bindResults(post, sig, results)
	untag := vc.withTag('E')
	for _, ec := range ifc.Ensures {
		vc.assume(merged, post.clause(ec))
	}
	untag()
	vc.note("abstract interface contract assumed: " + ifc.Key)
	return packResults(sig, results), merged, true
}
