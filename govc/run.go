package main

// A check run for one property: collect obligations, solve, report, write evidence.

import (
	"crypto/sha256"
	"encoding/json"
	"fmt"
	"go/types"
	"os"
	"path/filepath"
	"regexp"
	"sort"
	"strings"
	"time"

	"golang.org/x/tools/go/ssa"
)

type unit struct {
	fn    *ssa.Function
	fc    *FuncContract
	vc    *VC
	sweep *Sweep
}

type Run struct {
	e       *Engine
	prop    string
	tier    string
	seed    int
	verif   string
	units   []*unit
	obligs  []*Oblig
	other   int // obligations generated for the same functions but attributed to other properties
	verbose bool
	synth   []*Oblig
	genSecs float64
	solveSecs float64
	notes   map[string]bool
	outside []string
	unclaimed []Unclaimed
	hints     map[string]string
	bounded   []BoundedResult
}

// Unclaimed: obligations generated and attempted on every run but not part of the claim (not robustly dischargeable
// within the quick timeout); what they state is therefore an assumption of the properties that depend on it.
type Unclaimed struct {
	Property   string `json:"property"`
	Obligation string `json:"obligation"`
	Reason     string `json:"reason"`
}

func newRun(e *Engine, prop, tier string, seed int, verif string) *Run {
	return &Run{e: e, prop: prop, tier: tier, seed: seed, verif: verif, notes: map[string]bool{}}
}

func typesPtrTo(t types.Type) types.Type { return types.NewPointer(t) }

func (r *Run) addSynthetic(id, kind, desc, detail string) {
	o := &Oblig{ID: id, Kind: kind, Desc: desc, Props: []string{r.prop}, Verdict: "failed", Solver: "none", Output: detail, Goal: tFalse, Reach: tTrue}
	r.synth = append(r.synth, o)
}

func (r *Run) collect(sweeps []Sweep) {
	t0 := time.Now()
	e := r.e
	done := map[*ssa.Function]bool{}
	// 1. contracts mentioning the property
	for _, key := range e.contracts.sortedFuncKeys() {
		fc := e.contracts.Funcs[key]
		if fc.Extern {
			continue
		}
		fn := e.lookupFunc(key)
		if fn == nil && fc.Flags["funcfield"] != "" {
			// assumed contract of a function stored in a struct field: binds to the field
			if contractMentions(fc, r.prop) && !e.funcFieldExists(key) {
				r.addSynthetic(key+"#bound", "binding", "funcfield contract binds to a func-typed struct field", fmt.Sprintf("no such field for %s (contract at %s:%d)", key, fc.File, fc.Line))
			}
			continue
		}
		if fn == nil {
			if contractMentions(fc, r.prop) {
				r.addSynthetic(key+"#bound", "binding", "contract binds to a function in the current tree", fmt.Sprintf("no function %s (contract at %s:%d)", key, fc.File, fc.Line))
			}
			continue
		}
		if !contractMentions(fc, r.prop) {
			continue
		}
		if fc.Trusted {
			r.notes["trusted contract (body not verified): "+key] = true
			continue
		}
		r.units = append(r.units, &unit{fn: fn, fc: fc})
		done[fn] = true
	}
	// 2. sweeps
	for i := range sweeps {
		sw := &sweeps[i]
		if sw.Prop != r.prop {
			continue
		}
		re := regexp.MustCompile(sw.Pattern)
		n := 0
		for _, fn := range e.allFuncs() {
			if !re.MatchString(fn.String()) {
				continue
			}
			n++
			if done[fn] {
				continue
			}
			done[fn] = true
			fc := e.contracts.Funcs[fn.String()]
			if fc != nil && (fc.Trusted || fc.Extern) {
				continue
			}
			r.units = append(r.units, &unit{fn: fn, fc: fc, sweep: sw})
		}
		if n == 0 {
			r.addSynthetic("sweep#"+sw.Pattern, "binding", "sweep pattern matches at least one function", "pattern "+sw.Pattern+" matches nothing in the current tree")
		}
	}
	// 3. generate
	for _, u := range r.units {
		fc := u.fc
		if u.sweep != nil {
			// merge sweep flags into a copy of the contract (or a synthetic one)
			if fc == nil {
				fc = &FuncContract{Key: u.fn.String(), Loops: map[int]*LoopSpec{}, Flags: map[string]string{}, Props: []string{r.prop}}
			} else {
				cp := *fc
				cp.Flags = map[string]string{}
				for k, v := range fc.Flags {
					cp.Flags[k] = v
				}
				if !hasProp(cp.Props, r.prop) {
					cp.Props = append(append([]string{}, cp.Props...), r.prop)
				}
				fc = &cp
			}
			for k, v := range u.sweep.Flags {
				if _, ok := fc.Flags[k]; !ok {
					fc.Flags[k] = v
				}
			}
			if len(u.sweep.Requires) > 0 && len(fc.Requires) == 0 {
				for i, src := range u.sweep.Requires {
					ex, err := parseSpecExpr(src)
					if err != nil {
						r.addSynthetic("sweep#requires", "binding", "sweep requires clause parses", err.Error())
						continue
					}
					fc.Requires = append(fc.Requires, &Clause{Name: fmt.Sprintf("sweep%d", i), Expr: ex, Src: src, File: "sweeps.json"})
				}
			}
		}
		u.vc = e.verifyFunc(u.fn, fc, []string{r.prop})
		if u.vc.failed != "" {
			r.outside = append(r.outside, u.fn.String()+": "+u.vc.failed)
			r.addSynthetic(u.fn.String()+"#reach", "reach", "function is within the verifier's reach", u.vc.failed)
			continue
		}
		// loop binding
		if u.fc != nil {
			li := analyzeLoops(u.fn)
			for n := range u.fc.Loops {
				if n >= len(li.heads)+e.iteratingCalls(u.fn) {
					r.addSynthetic(u.fn.String()+fmt.Sprintf("#loop%d.bound", n), "binding", "loop contract binds to a loop", fmt.Sprintf("function has %d loops", len(li.heads)))
				}
			}
		}
		for _, o := range u.vc.obligs {
			if hasProp(o.Props, r.prop) {
				if u.sweep != nil && len(u.sweep.Kinds) > 0 && !containsStr(u.sweep.Kinds, o.Kind) && o.Kind != "cover" {
					r.other++
					continue
				}
				r.obligs = append(r.obligs, o)
			} else {
				r.other++
			}
		}
		for n := range u.vc.notes {
			r.notes[n] = true
		}
	}
	// 3b. opaque predicates: the declared reads footprint must cover every heap family the body reads
	pkgsSeen := map[string]bool{}
	for _, u := range r.units {
		pkgsSeen[fnPkgPath(u.fn)] = true
	}
	for _, key := range sortedKeys(e.contracts.Pures) {
		pf := e.contracts.Pures[key]
		if !pf.Opaque || !pkgsSeen[pf.PkgPath] {
			continue
		}
		if missing, err := e.checkReads(pf); err != nil {
			r.addSynthetic(key+"#reads", "frame", "opaque predicate's reads clause can be evaluated", err.Error())
		} else if len(missing) > 0 {
			r.addSynthetic(key+"#reads", "frame", "opaque predicate's reads clause covers every heap family its body reads", "not covered: "+strings.Join(missing, ", "))
		} else {
			o := &Oblig{ID: key + "#reads", Kind: "frame", Func: "pred " + key, Props: []string{r.prop}, Desc: "opaque predicate's reads clause covers every heap family its body reads",
				Reach: tTrue, Goal: tTrue, Verdict: "unsat", Solver: "syntactic"}
			r.synth = append(r.synth, o)
		}
	}
	// 4. lemmas
	for _, lm := range e.contracts.Lemmas {
		if !hasProp(lm.Props, r.prop) {
			continue
		}
		vc := e.newVC(nil, nil)
		vc.props = lm.Props
		func() {
			defer func() {
				if rec := recover(); rec != nil {
					r.addSynthetic("lemma#"+lm.Name+"#reach", "reach", "lemma can be evaluated", fmt.Sprint(rec))
				}
			}()
			st := &State{heap: map[string]*Term{}, locals: map[*ssa.Alloc]Val{}, reach: tTrue}
			vc.entry = st
			env := vc.newEnv(e.typesPkg(lm.PkgPath), st, st)
			for _, ax := range e.contracts.Axioms {
				if ax.PkgPath == lm.PkgPath {
					aenv := vc.newEnv(e.typesPkg(ax.PkgPath), st, st)
					vc.assumeGlobal(aenv.boolOf(aenv.eval(ax.Expr)))
					r.notes["axiom assumed: "+ax.Name+" ("+ax.Src+")"] = true
				}
			}
			g := env.boolOf(env.eval(lm.Expr))
			o := &Oblig{ID: shortPkg(lm.PkgPath) + ".lemma#" + lm.Name, Kind: "lemma", Func: "lemma " + lm.Name, Pos: fmt.Sprintf("%s:%d", shortPos(lm.File), lm.Line), Props: lm.Props,
				Desc: "lemma: " + lm.Src, Reach: tTrue, Goal: g, NAssume: len(vc.assumes), vc: vc}
			r.obligs = append(r.obligs, o)
		}()
	}
	r.genSecs = time.Since(t0).Seconds()
}

// checkReads evaluates an opaque predicate transparently on symbolic arguments and compares the heap families
// occurring in the result with the families of its declared reads clause.
func (e *Engine) checkReads(pf *PureFunc) (missing []string, err error) {
	defer func() {
		if r := recover(); r != nil {
			err = fmt.Errorf("%v", r)
		}
	}()
	vc := e.newVC(nil, nil)
	st := &State{heap: map[string]*Term{}, locals: map[*ssa.Alloc]Val{}, reach: tTrue}
	vc.entry = st
	env := vc.newEnv(e.typesPkg(pf.PkgPath), st, st)
	if pf.RecvType != nil {
		rt := env.resolveType(pf.RecvType)
		env.vars[pf.RecvName] = TV{vc.havocVal(st, rt, "recv"), rt}
	}
	for _, p := range pf.Params {
		pt := env.resolveType(p.Type)
		env.vars[p.Name] = TV{vc.havocVal(st, pt, "p$"+p.Name), pt}
	}
	body := env.scalar(env.eval(pf.Body))
	declared := map[string]bool{}
	for _, t := range env.modTargets(pf.Reads) {
		declared[t.key] = true
	}
	vars := map[string]*Sort{}
	collectSyms(body, vars, map[string]*Term{}, map[string]bool{})
	for _, v := range sortedKeys(vars) {
		if !strings.HasPrefix(v, "H$") {
			continue
		}
		k := strings.SplitN(v[2:], "!", 2)[0]
		if k == allocKey || declared[k] {
			continue
		}
		missing = append(missing, k)
	}
	return missing, nil
}

func containsStr(xs []string, s string) bool {
	for _, x := range xs {
		if x == s {
			return true
		}
	}
	return false
}

func (r *Run) solve() {
	t0 := time.Now()
	scratch, err := os.MkdirTemp("", "govc-"+r.prop+"-")
	if err != nil {
		panic(err)
	}
	defer os.RemoveAll(scratch)
	opt := solveOpts{timeout: 10 * time.Second, workers: 16, seed: r.seed, scratch: scratch, hints: r.hints}
	if r.tier == "thorough" {
		opt.timeout = 60 * time.Second
		opt.second = true
	}
	solveAll(r.obligs, opt)
	r.solveSecs = time.Since(t0).Seconds()
}

func digest(s string) string {
	h := sha256.Sum256([]byte(s))
	return fmt.Sprintf("%x", h[:6])
}

func (r *Run) report(known KnownFile, evOut string, t0 time.Time) int {
	// obligations that are attempted but not claimed (specs/unclaimed.json): reported, never counted, never alarmed on
	var unclaimed []map[string]string
	var claimedObs []*Oblig
	for _, o := range r.obligs {
		skip := false
		for _, u := range r.unclaimed {
			if u.Property != "*" && u.Property != r.prop {
				continue
			}
			if ok, _ := regexp.MatchString("^(?:"+u.Obligation+")$", o.ID); ok {
				unclaimed = append(unclaimed, map[string]string{"obligation": o.ID, "verdict_this_run": o.Verdict, "reason": u.Reason})
				r.notes["attempted, NOT claimed (assumed): "+u.Obligation+" — "+u.Reason] = true
				skip = true
				break
			}
		}
		if !skip {
			claimedObs = append(claimedObs, o)
		}
	}
	r.obligs = claimedObs
	all := append([]*Oblig{}, r.obligs...)
	all = append(all, r.synth...)
	var failed []*Oblig
	discharged := 0
	for _, o := range all {
		if o.Verdict == "unsat" {
			discharged++
			if os.Getenv("GOVC_AUDIT") != "" && (o.Hinted || strings.Contains(o.Solver, "#") || strings.Contains(o.Solver, "slice-") || o.Solver == "cvc5" || o.Solver == "z3" || o.Solver == "z3-new") && o.Kind != "cover" {
				// stability audit: discharged only by the portfolio, a hint or an assumption slice
				fmt.Fprintf(os.Stderr, "PORTFOLIO-DEPENDENT %s %s %.1fs\n", o.ID, o.Solver, o.TimeS)
			}
		} else {
			failed = append(failed, o)
		}
	}
	sort.Slice(failed, func(i, j int) bool { return failed[i].ID < failed[j].ID })
	// known findings
	var knownHits []map[string]string
	var violations []*Oblig
	for _, o := range failed {
		matched := false
		for _, k := range known.Findings {
			if k.Property != r.prop {
				continue
			}
			if ok, _ := regexp.MatchString("^(?:"+k.Obligation+")$", o.ID); ok {
				matched = true
				o.Known = true
				fmt.Printf("KNOWN-FINDING: property=%s %s %s\n", r.prop, o.ID, k.What)
				knownHits = append(knownHits, map[string]string{"obligation": o.ID, "what_fails": k.What, "witness_class": k.Witness})
				break
			}
		}
		if !matched {
			violations = append(violations, o)
		}
	}
	// stale known findings (listed but now discharged) are reported in evidence only
	replayDir := filepath.Join(r.verif, "replays", r.prop)
	code := 0
	var violationPaths []string
	if len(violations) > 0 {
		os.MkdirAll(replayDir, 0o755)
		for _, o := range violations {
			path := filepath.Join(replayDir, sanitize(o.ID)+".json")
			rep := r.replay(o)
			data, _ := json.MarshalIndent(rep, "", " ")
			os.WriteFile(path, data, 0o644)
			suffix := ""
			if !rep.Reproduced {
				suffix = " no-failing-input-found"
			}
			fmt.Printf("VIOLATION property=%s replay=%s%s\n", r.prop, path, suffix)
			fmt.Printf("  obligation %s [%s] %s: %s (%s)\n", o.ID, o.Kind, o.Pos, o.Desc, o.Verdict)
			violationPaths = append(violationPaths, path)
			code = 1
		}
	}
	// bounded stand-ins for trusted contracts: a failing one is a violation with a concrete failing input
	boundedViolations := 0
	for i := range r.bounded {
		b := &r.bounded[i]
		if b.Passed {
			continue
		}
		os.MkdirAll(replayDir, 0o755)
		path := filepath.Join(replayDir, "bounded_"+sanitize(b.Name)+".json")
		rep := map[string]interface{}{
			"property":   r.prop,
			"obligation": "bounded:" + b.Name,
			"what":       "bounded check of the trusted contract of " + b.Function + " on the real code (" + b.Bound + ")",
			"failure":    b.Failure,
			"reproduced": true,
			"output":     tail(b.output, 4000),
		}
		data, _ := json.MarshalIndent(rep, "", " ")
		os.WriteFile(path, data, 0o644)
		fmt.Printf("VIOLATION property=%s replay=%s\n", r.prop, path)
		fmt.Printf("  obligation bounded:%s [bounded stand-in for a trusted contract] %s\n", b.Name, b.Failure)
		violationPaths = append(violationPaths, path)
		boundedViolations++
		code = 1
	}
	// evidence
	byKind := map[string]int{}
	var funcs []string
	fseen := map[string]bool{}
	var solverTime float64
	for _, o := range all {
		byKind[o.Kind]++
		solverTime += o.TimeS
		if o.Func != "" && !fseen[o.Func] {
			fseen[o.Func] = true
			funcs = append(funcs, shortFuncString(o.Func))
		}
	}
	sort.Strings(funcs)
	var samples []map[string]interface{}
	for i, o := range all {
		if i%maxInt(1, len(all)/12) == 0 || o.Verdict != "unsat" {
			samples = append(samples, map[string]interface{}{"obligation": o.ID, "kind": o.Kind, "at": o.Pos, "what": o.Desc, "verdict": o.Verdict, "backend": o.Solver,
				"solver_s": round3(o.TimeS), "formula_digest": digest(o.scriptText)})
		}
		if len(samples) > 40 {
			break
		}
	}
	var single []string
	if r.tier == "thorough" {
		for _, o := range r.obligs {
			if o.Verdict == "unsat" && o.Second == "" && o.Solver != "trivial" && o.Kind != "cover" {
				single = append(single, o.ID)
			}
		}
	}
	assumptions := []string{}
	for _, n := range sortedKeys(r.notes) {
		assumptions = append(assumptions, n)
	}
	assumptions = append(assumptions, standingAssumptions...)
	level := "proof"
	ev := map[string]interface{}{
		"property_id": r.prop,
		"tier":        r.tier,
		"seed":        r.seed,
		"level":       level,
		"wall_s":      round3(time.Since(t0).Seconds()),
		"violations":  len(violations) + boundedViolations,
		"assumptions": assumptions,
		"coverage": map[string]interface{}{
			"obligations":             len(all),
			"discharged":              discharged,
			"checker_cmd":             fmt.Sprintf("govc check -prop %s -tier %s (go/ssa weakest-precondition generator; z3-new 5.1.0 primary, cvc5 1.0 and z3 4.8.12 raced; unsat is the only pass)", r.prop, r.tier),
			"trusted_base":            trustedBase,
			"functions_under_contract": funcs,
			"obligations_by_kind":     byKind,
			"backends":                summarizeBackends(all),
			"solver_time_s":           round3(solverTime),
			"vcgen_time_s":            round3(r.genSecs),
			"solve_wall_s":            round3(r.solveSecs),
			"slowest":                 slowest(all, 5),
			"samples":                 samples,
			"known_findings":          knownHits,
			"attempted_not_claimed":   unclaimed,
			"violating_obligations":   obligIDs(violations),
			"outside_reach":           r.outside,
			"obligations_other_properties_same_functions": r.other,
			"single_solver":           single,
			"contract_files":          relFiles(r.e.contractFiles),
			"bounded_stand_ins":       r.bounded,
			"explanation":             "Every obligation is generated from the go/ssa form of /repo's working tree (build tag verif) and discharged only on `unsat`. While a known finding is open its obligations are counted in `obligations` but not in `discharged`: the property is then NOT proved on this tree.",
		},
	}
	os.MkdirAll(filepath.Dir(evOut), 0o755)
	data, _ := json.MarshalIndent(ev, "", " ")
	os.WriteFile(evOut, data, 0o644)
	if r.verbose || code != 0 {
		for _, o := range all {
			if o.Verdict != "unsat" || r.verbose {
				fmt.Printf("  %-8s %-10s %6.2fs %s [%s] %s\n", o.Verdict, o.Solver, o.TimeS, o.ID, o.Pos, o.Desc)
			}
		}
	}
	fmt.Printf("property=%s tier=%s obligations=%d discharged=%d known=%d violations=%d functions=%d wall=%.1fs (vcgen %.1fs, solve %.1fs)\n",
		r.prop, r.tier, len(all), discharged, len(knownHits), len(violations)+boundedViolations, len(funcs), time.Since(t0).Seconds(), r.genSecs, r.solveSecs)
	if len(all) == 0 {
		fmt.Printf("VIOLATION property=%s replay=%s no-failing-input-found\n", r.prop, "none (zero obligations generated: vacuous check)")
		return 1
	}
	return code
}

func maxInt(a, b int) int {
	if a > b {
		return a
	}
	return b
}

func round3(f float64) float64 { return float64(int(f*1000+0.5)) / 1000 }

func obligIDs(os []*Oblig) []string {
	out := []string{}
	for _, o := range os {
		out = append(out, o.ID)
	}
	return out
}

func relFiles(fs []string) []string {
	var out []string
	for _, f := range fs {
		out = append(out, f)
	}
	sort.Strings(out)
	return out
}

func shortFuncString(s string) string {
	return strings.ReplaceAll(s, "github.com/olric-data/olric/", "")
}

var trustedBase = []string{
	"Go type checker and go/ssa construction (golang.org/x/tools v0.29.0)",
	"govc symbolic semantics (block-merge weakest preconditions over SSA, Burstall-Bornat heap, slices as (base,off,len,cap))",
	"SMT solvers z3 5.1.0 / cvc5 1.0 / z3 4.8.12",
	"induction over operation sequences for data-structure invariants (meta-argument)",
	"extern contracts in /verif/specs/*.vc and native models in govc/natives.go (assumptions about dependencies)",
}

var standingAssumptions = []string{
	"goroutine interleavings are not explored; sync primitives have no data effect in the model",
	"integers are mathematical Ints with exact two's-complement wrap on + - * and conversions; non-linear products are passed to the solver as such",
	"floating point values are treated as reals",
	"typed nil pointers stored in interfaces are identified with nil interfaces",
	"package-level error variables initialised by errors.New/fmt.Errorf and never reassigned are distinct, non-nil and wrap nothing",
	"callback parameters of function type are treated as effect-free when called inside a verified function",
	"loops are cut at their invariants (default invariant: true, all written locations havocked)",
	"an external callee without contract is assumed to write only what is reachable through its statically typed pointer parameters (decoders named *Unmarshal* also through the dynamic type of their interface arguments); each such call is listed above as 'extern callee without contract havocked'",
}

// ---------------------------------------------------------------- replay

type Replay struct {
	Property   string   `json:"property"`
	Obligation string   `json:"obligation"`
	Kind       string   `json:"kind"`
	Function   string   `json:"function"`
	At         string   `json:"at"`
	What       string   `json:"what"`
	Verdict    string   `json:"verdict"`
	Attempts   []string `json:"solver_attempts"`
	Output     string   `json:"solver_output"`
	Model      string   `json:"model,omitempty"`
	Inputs     interface{} `json:"concrete_inputs,omitempty"`
	Test       string   `json:"generated_test,omitempty"`
	TestOutput string   `json:"test_output,omitempty"`
	Reproduced bool     `json:"reproduced"`
	Note       string   `json:"note"`
}

func (r *Run) replay(o *Oblig) *Replay {
	rep := &Replay{Property: r.prop, Obligation: o.ID, Kind: o.Kind, Function: o.Func, At: o.Pos, What: o.Desc, Verdict: o.Verdict, Attempts: o.Attempts}
	out := o.Output
	if len(out) > 4000 {
		out = out[:4000]
	}
	rep.Output = out
	if len(o.Model) > 20000 {
		rep.Model = o.Model[:20000]
	} else {
		rep.Model = o.Model
	}
	rep.Note = "no concrete failing input was derived; the obligation named above is not discharged on the current tree"
	if o.vc != nil && o.vc.root != nil {
		tryReplay(r, o, rep)
	}
	return rep
}
