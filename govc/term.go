package main

// SMT term layer: sorts, hash-consed-ish terms, light simplification, printing.

import (
	"fmt"
	"math/big"
	"sort"
	"strings"
)

type Sort struct {
	Name string // Int Bool Real Ref Str, or "Array"
	K, V *Sort
}

var (
	SInt  = &Sort{Name: "Int"}
	SBool = &Sort{Name: "Bool"}
	SReal = &Sort{Name: "Real"}
	SRef  = &Sort{Name: "Ref"}
	SStr  = &Sort{Name: "Str"}
)

var arrSorts = map[string]*Sort{}

func SArr(k, v *Sort) *Sort {
	key := k.String() + "->" + v.String()
	if s, ok := arrSorts[key]; ok {
		return s
	}
	s := &Sort{Name: "Array", K: k, V: v}
	arrSorts[key] = s
	return s
}

func (s *Sort) String() string {
	if s.Name == "Array" {
		return "(Array " + s.K.String() + " " + s.V.String() + ")"
	}
	return s.Name
}

func (s *Sort) Eq(o *Sort) bool { return s.String() == o.String() }

type Term struct {
	Op   string // operator, or constant/variable name when len(Args)==0 && Kind==TVar
	Kind int
	Args []*Term
	Sort *Sort
	Int  *big.Int
	// for quantifiers
	Bound []*Term // bound variables (Kind TVar)
	Pats  [][]*Term
	str   string
}

const (
	TVar = iota // free constant / bound variable
	TInt        // integer literal
	TBool       // true/false
	TApp        // application of builtin or UF
	TQuant      // forall / exists
	TReal       // real literal (stored in Op as decimal string)
)

func mkVar(name string, s *Sort) *Term { return &Term{Op: name, Kind: TVar, Sort: s} }
func mkInt(i int64) *Term             { return &Term{Kind: TInt, Int: big.NewInt(i), Sort: SInt} }
func mkBig(i *big.Int) *Term          { return &Term{Kind: TInt, Int: new(big.Int).Set(i), Sort: SInt} }
func mkReal(s string) *Term           { return &Term{Kind: TReal, Op: s, Sort: SReal} }

var (
	tTrue  = &Term{Kind: TBool, Op: "true", Sort: SBool}
	tFalse = &Term{Kind: TBool, Op: "false", Sort: SBool}
	tNull  = mkVar("null", SRef)
)

func mkBool(b bool) *Term {
	if b {
		return tTrue
	}
	return tFalse
}

func mkApp(op string, s *Sort, args ...*Term) *Term {
	for _, a := range args {
		if a == nil {
			panic("nil arg to " + op)
		}
	}
	return &Term{Op: op, Kind: TApp, Args: args, Sort: s}
}

func isTrue(t *Term) bool  { return t.Kind == TBool && t.Op == "true" }
func isFalse(t *Term) bool { return t.Kind == TBool && t.Op == "false" }

func termEq(a, b *Term) bool {
	if a == b {
		return true
	}
	return a.String() == b.String()
}

func mkNot(a *Term) *Term {
	if isTrue(a) {
		return tFalse
	}
	if isFalse(a) {
		return tTrue
	}
	if a.Kind == TApp && a.Op == "not" {
		return a.Args[0]
	}
	return mkApp("not", SBool, a)
}

func mkAnd(as ...*Term) *Term {
	var out []*Term
	for _, a := range as {
		if isTrue(a) {
			continue
		}
		if isFalse(a) {
			return tFalse
		}
		if a.Kind == TApp && a.Op == "and" {
			out = append(out, a.Args...)
		} else {
			out = append(out, a)
		}
	}
	if len(out) == 0 {
		return tTrue
	}
	if len(out) == 1 {
		return out[0]
	}
	return mkApp("and", SBool, out...)
}

func mkOr(as ...*Term) *Term {
	var out []*Term
	for _, a := range as {
		if isFalse(a) {
			continue
		}
		if isTrue(a) {
			return tTrue
		}
		if a.Kind == TApp && a.Op == "or" {
			out = append(out, a.Args...)
		} else {
			out = append(out, a)
		}
	}
	if len(out) == 0 {
		return tFalse
	}
	if len(out) == 1 {
		return out[0]
	}
	return mkApp("or", SBool, out...)
}

func mkImplies(a, b *Term) *Term {
	if isTrue(a) {
		return b
	}
	if isFalse(a) || isTrue(b) {
		return tTrue
	}
	return mkApp("=>", SBool, a, b)
}

func mkIte(c, a, b *Term) *Term {
	if isTrue(c) {
		return a
	}
	if isFalse(c) {
		return b
	}
	if termEq(a, b) {
		return a
	}
	if a.Sort == SBool {
		if isTrue(a) && isFalse(b) {
			return c
		}
		if isFalse(a) && isTrue(b) {
			return mkNot(c)
		}
	}
	return mkApp("ite", a.Sort, c, a, b)
}

func mkEq(a, b *Term) *Term {
	if a.Sort.String() != b.Sort.String() {
		panic(fmt.Sprintf("sort mismatch in =: %s:%s vs %s:%s", a, a.Sort, b, b.Sort))
	}
	if a.Kind == TInt && b.Kind == TInt {
		return mkBool(a.Int.Cmp(b.Int) == 0)
	}
	if a.Kind == TBool && b.Kind == TBool {
		return mkBool(a.Op == b.Op)
	}
	if a == b {
		return tTrue
	}
	if a.Sort == SBool {
		if isTrue(b) {
			return a
		}
		if isTrue(a) {
			return b
		}
		if isFalse(b) {
			return mkNot(a)
		}
		if isFalse(a) {
			return mkNot(b)
		}
	}
	return mkApp("=", SBool, a, b)
}

func mkNeq(a, b *Term) *Term { return mkNot(mkEq(a, b)) }

func mkCmp(op string, a, b *Term) *Term {
	if a.Kind == TInt && b.Kind == TInt {
		c := a.Int.Cmp(b.Int)
		switch op {
		case "<":
			return mkBool(c < 0)
		case "<=":
			return mkBool(c <= 0)
		case ">":
			return mkBool(c > 0)
		case ">=":
			return mkBool(c >= 0)
		}
	}
	return mkApp(op, SBool, a, b)
}

func mkAdd(a, b *Term) *Term {
	if a.Kind == TInt && b.Kind == TInt {
		return mkBig(new(big.Int).Add(a.Int, b.Int))
	}
	if a.Kind == TInt && a.Int.Sign() == 0 {
		return b
	}
	if b.Kind == TInt && b.Int.Sign() == 0 {
		return a
	}
	// (x + c1) + c2
	if b.Kind == TInt && a.Kind == TApp && a.Op == "+" && len(a.Args) == 2 && a.Args[1].Kind == TInt {
		return mkAdd(a.Args[0], mkBig(new(big.Int).Add(a.Args[1].Int, b.Int)))
	}
	// x + (y - x)  and  (y - x) + x
	if b.Kind == TApp && b.Op == "-" && len(b.Args) == 2 && termEq(b.Args[1], a) {
		return b.Args[0]
	}
	if a.Kind == TApp && a.Op == "-" && len(a.Args) == 2 && termEq(a.Args[1], b) {
		return a.Args[0]
	}
	return mkApp("+", a.Sort, a, b)
}

func mkSub(a, b *Term) *Term {
	if a.Kind == TInt && b.Kind == TInt {
		return mkBig(new(big.Int).Sub(a.Int, b.Int))
	}
	if b.Kind == TInt && b.Int.Sign() == 0 {
		return a
	}
	if b.Kind == TInt {
		return mkAdd(a, mkBig(new(big.Int).Neg(b.Int)))
	}
	return mkApp("-", a.Sort, a, b)
}

func mkMul(a, b *Term) *Term {
	if a.Kind == TInt && b.Kind == TInt {
		return mkBig(new(big.Int).Mul(a.Int, b.Int))
	}
	return mkApp("*", a.Sort, a, b)
}

func mkNeg(a *Term) *Term {
	if a.Kind == TInt {
		return mkBig(new(big.Int).Neg(a.Int))
	}
	return mkApp("-", a.Sort, a)
}

func mkSelect(arr, idx *Term) *Term {
	if arr.Sort.Name != "Array" {
		panic("select on non-array " + arr.String() + " : " + arr.Sort.String())
	}
	// select(store(a,i,v), i) = v  (syntactic)
	for arr.Kind == TApp && arr.Op == "store" {
		if termEq(arr.Args[1], idx) {
			return arr.Args[2]
		}
		if distinctLits(arr.Args[1], idx) {
			arr = arr.Args[0]
			continue
		}
		break
	}
	if arr.Kind == TApp && arr.Op == "constarr" {
		return arr.Args[0]
	}
	return mkApp("select", arr.Sort.V, arr, idx)
}

func distinctLits(a, b *Term) bool {
	if a.Kind == TInt && b.Kind == TInt {
		return a.Int.Cmp(b.Int) != 0
	}
	return false
}

func mkStore(arr, idx, v *Term) *Term {
	if arr.Sort.Name != "Array" {
		panic("store on non-array")
	}
	if !arr.Sort.V.Eq(v.Sort) {
		panic(fmt.Sprintf("store sort mismatch: array %s value %s:%s", arr.Sort, v, v.Sort))
	}
	return mkApp("store", arr.Sort, arr, idx, v)
}

func mkConstArr(s *Sort, v *Term) *Term { return mkApp("constarr", s, v) }

func mkForall(bound []*Term, body *Term, pats ...[]*Term) *Term {
	if isTrue(body) {
		return tTrue
	}
	if len(bound) == 0 {
		return body
	}
	return &Term{Kind: TQuant, Op: "forall", Bound: bound, Args: []*Term{body}, Sort: SBool, Pats: pats}
}

func mkExists(bound []*Term, body *Term) *Term {
	if len(bound) == 0 {
		return body
	}
	return &Term{Kind: TQuant, Op: "exists", Bound: bound, Args: []*Term{body}, Sort: SBool}
}

func smtName(s string) string {
	ok := true
	for _, c := range s {
		if !(c >= 'a' && c <= 'z' || c >= 'A' && c <= 'Z' || c >= '0' && c <= '9' || c == '_' || c == '$' || c == '.' || c == '!' || c == '@' || c == '#' || c == '%' || c == '^' || c == '&' || c == '~') {
			ok = false
			break
		}
	}
	if ok && len(s) > 0 && !(s[0] >= '0' && s[0] <= '9') {
		return s
	}
	return "|" + strings.ReplaceAll(s, "|", "!") + "|"
}

func (t *Term) String() string {
	if t.str != "" {
		return t.str
	}
	var sb strings.Builder
	t.write(&sb)
	t.str = sb.String()
	return t.str
}

func (t *Term) write(sb *strings.Builder) {
	if t.str != "" {
		sb.WriteString(t.str)
		return
	}
	switch t.Kind {
	case TVar:
		sb.WriteString(smtName(t.Op))
	case TInt:
		if t.Int.Sign() < 0 {
			sb.WriteString("(- ")
			sb.WriteString(new(big.Int).Neg(t.Int).String())
			sb.WriteString(")")
		} else {
			sb.WriteString(t.Int.String())
		}
	case TBool:
		sb.WriteString(t.Op)
	case TReal:
		sb.WriteString(t.Op)
	case TQuant:
		sb.WriteString("(")
		sb.WriteString(t.Op)
		sb.WriteString(" (")
		for i, b := range t.Bound {
			if i > 0 {
				sb.WriteString(" ")
			}
			sb.WriteString("(")
			sb.WriteString(smtName(b.Op))
			sb.WriteString(" ")
			sb.WriteString(b.Sort.String())
			sb.WriteString(")")
		}
		sb.WriteString(") ")
		if len(t.Pats) > 0 {
			sb.WriteString("(! ")
		}
		t.Args[0].write(sb)
		if len(t.Pats) > 0 {
			for _, p := range t.Pats {
				sb.WriteString(" :pattern (")
				for i, x := range p {
					if i > 0 {
						sb.WriteString(" ")
					}
					x.write(sb)
				}
				sb.WriteString(")")
			}
			sb.WriteString(")")
		}
		sb.WriteString(")")
	case TApp:
		if t.Op == "constarr" {
			sb.WriteString("((as const ")
			sb.WriteString(t.Sort.String())
			sb.WriteString(") ")
			t.Args[0].write(sb)
			sb.WriteString(")")
			return
		}
		if len(t.Args) == 0 {
			sb.WriteString(smtName(t.Op))
			return
		}
		sb.WriteString("(")
		switch t.Op {
		case "=", "=>", "and", "or", "not", "ite", "+", "-", "*", "<", "<=", ">", ">=", "select", "store", "div", "mod", "distinct", "/", "to_real", "to_int":
			sb.WriteString(t.Op)
		default:
			sb.WriteString(smtName(t.Op))
		}
		for _, a := range t.Args {
			sb.WriteString(" ")
			a.write(sb)
		}
		sb.WriteString(")")
	}
}

// alphaKey prints t with bound variables renamed canonically (b0, b1, ... in binding order), so that formulas that
// differ only in the names of bound variables get the same key.
func alphaKey(t *Term) string {
	var sb strings.Builder
	n := 0
	var rec func(t *Term, env map[string]string)
	rec = func(t *Term, env map[string]string) {
		switch t.Kind {
		case TVar:
			if r, ok := env[t.Op]; ok {
				sb.WriteString(r)
			} else {
				sb.WriteString(smtName(t.Op))
			}
		case TQuant:
			ne := make(map[string]string, len(env)+len(t.Bound))
			for k, v := range env {
				ne[k] = v
			}
			sb.WriteString("(" + t.Op + " (")
			for _, b := range t.Bound {
				nm := fmt.Sprintf("b%d", n)
				n++
				ne[b.Op] = nm
				sb.WriteString(nm + ":" + b.Sort.String() + " ")
			}
			sb.WriteString(") ")
			rec(t.Args[0], ne)
			sb.WriteString(")")
		case TApp:
			if len(t.Args) == 0 {
				sb.WriteString(t.String())
				return
			}
			sb.WriteString("(" + t.Op)
			for _, a := range t.Args {
				sb.WriteString(" ")
				rec(a, env)
			}
			sb.WriteString(")")
		default:
			sb.WriteString(t.String())
		}
	}
	rec(t, map[string]string{})
	return sb.String()
}

// substitute free variables by name
func subst(t *Term, m map[string]*Term) *Term {
	if len(m) == 0 {
		return t
	}
	switch t.Kind {
	case TVar:
		if r, ok := m[t.Op]; ok {
			return r
		}
		return t
	case TInt, TBool, TReal:
		return t
	case TQuant:
		m2 := m
		for _, b := range t.Bound {
			if _, ok := m[b.Op]; ok {
				if &m2 == &m || true {
					m2 = map[string]*Term{}
					for k, v := range m {
						m2[k] = v
					}
				}
				delete(m2, b.Op)
			}
		}
		nb := subst(t.Args[0], m2)
		var pats [][]*Term
		for _, p := range t.Pats {
			var np []*Term
			for _, x := range p {
				np = append(np, subst(x, m2))
			}
			pats = append(pats, np)
		}
		return &Term{Kind: TQuant, Op: t.Op, Bound: t.Bound, Args: []*Term{nb}, Sort: SBool, Pats: pats}
	case TApp:
		changed := false
		na := make([]*Term, len(t.Args))
		for i, a := range t.Args {
			na[i] = subst(a, m)
			if na[i] != a {
				changed = true
			}
		}
		if !changed {
			return t
		}
		return rebuild(t.Op, t.Sort, na)
	}
	return t
}

func rebuild(op string, s *Sort, a []*Term) *Term {
	switch op {
	case "and":
		return mkAnd(a...)
	case "or":
		return mkOr(a...)
	case "not":
		return mkNot(a[0])
	case "=>":
		return mkImplies(a[0], a[1])
	case "ite":
		return mkIte(a[0], a[1], a[2])
	case "=":
		return mkEq(a[0], a[1])
	case "select":
		return mkSelect(a[0], a[1])
	case "+":
		if len(a) == 2 {
			return mkAdd(a[0], a[1])
		}
	case "<", "<=", ">", ">=":
		return mkCmp(op, a[0], a[1])
	}
	return mkApp(op, s, a...)
}

// collect free symbols (vars and UF names) used in a term
func collectSyms(t *Term, vars map[string]*Sort, ufs map[string]*Term, bound map[string]bool) {
	switch t.Kind {
	case TVar:
		if !bound[t.Op] {
			vars[t.Op] = t.Sort
		}
	case TQuant:
		nb := map[string]bool{}
		for k := range bound {
			nb[k] = true
		}
		for _, b := range t.Bound {
			nb[b.Op] = true
		}
		collectSyms(t.Args[0], vars, ufs, nb)
		for _, p := range t.Pats {
			for _, x := range p {
				collectSyms(x, vars, ufs, nb)
			}
		}
	case TApp:
		if !builtinOps[t.Op] {
			if _, ok := ufs[t.Op]; !ok {
				ufs[t.Op] = t
			}
		}
		for _, a := range t.Args {
			collectSyms(a, vars, ufs, bound)
		}
	}
}

var builtinOps = map[string]bool{"=": true, "=>": true, "and": true, "or": true, "not": true, "ite": true, "+": true, "-": true, "*": true,
	"<": true, "<=": true, ">": true, ">=": true, "select": true, "store": true, "div": true, "mod": true, "distinct": true, "constarr": true,
	"/": true, "to_real": true, "to_int": true}

func sortedKeys[V any](m map[string]V) []string {
	ks := make([]string, 0, len(m))
	for k := range m {
		ks = append(ks, k)
	}
	sort.Strings(ks)
	return ks
}

func termSize(t *Term) int {
	n := 1
	for _, a := range t.Args {
		n += termSize(a)
		if n > 10000 {
			return n
		}
	}
	return n
}
