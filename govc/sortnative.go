package main

// Assumed model of sort.Slice(x, less) and sort.SliceStable: the elements of x are permuted in place and end up
// ordered by less. "Ordered" is stated through the CONTRACT of the less closure (which is verified against the
// closure's body like any other function): for positions a < b, less(a,b) may hold or less(b,a) does not.
// The permutation is given by a pair of mutually inverse skolem functions.

import (
	"fmt"
	"go/types"

	"golang.org/x/tools/go/ssa"
)

func registerSortNatives(e *Engine, n map[string]nativeFn) {
	f := func(fr *Frame, st *State, args []Val, c *ssa.CallCommon, pos string) Val {
		vc := fr.vc
		mi, ok := c.Args[0].(*ssa.MakeInterface)
		if !ok {
			panic(unsupported("sort.Slice: argument is not a slice converted in place"))
		}
		sl, ok := fr.get(mi.X).(*VSlice)
		if !ok {
			panic(unsupported("sort.Slice: argument is not a slice"))
		}
		clo, ok := args[1].(*VClosure)
		if !ok {
			panic(unsupported("sort.Slice: less is not a function literal"))
		}
		key := clo.Fn.String()
		fc := e.contracts.Funcs[key]
		if fc == nil {
			panic(unsupported("sort.Slice: the less closure " + key + " has no contract"))
		}
		fc.Used = true
		vc.note("assumed model: sort.Slice permutes the slice in place and orders it by the contract of its less closure " + key)
		et := mi.X.Type().Underlying().(*types.Slice).Elem()
		lo := sl.Off
		hi := mkAdd(sl.Off, sl.Len)
		inRange := func(k *Term) *Term { return mkAnd(mkCmp("<=", lo, k), mkCmp("<", k, hi)) }
		i := mkVar("si!", SInt)
		j := mkVar("sj!", SInt)
		sig := clo.Fn.Signature
		// 1. the closure's preconditions hold for every pair of positions (checked in the state before the sort;
		//    they are assumed to be insensitive to permuting the slice)
		{
			env := vc.paramEnv(clo.Fn, fc, []Val{&VS{i}, &VS{j}}, clo.Bind, st, st)
			for _, rc := range fc.Requires {
				g := env.clause(rc)
				goal := mkForall([]*Term{i, j}, mkImplies(mkAnd(mkCmp("<=", mkInt(0), i), mkCmp("<", i, sl.Len), mkCmp("<=", mkInt(0), j), mkCmp("<", j, sl.Len)), g))
				vc.oblige(st, "requires", fr.name("pre.less."+rc.Name+"@"+shortPos(pos)), pos, "precondition of the less closure for all positions: "+rc.Src, goal, rc.Props)
			}
		}
		// 2. permutation of the element families
		vc.n++
		p := fmt.Sprintf("perm!%d", vc.n)
		q := fmt.Sprintf("perminv!%d", vc.n)
		k := mkVar("sk!", SInt)
		pk := mkApp(p, SInt, k)
		qk := mkApp(q, SInt, k)
		vc.assume(st, mkForall([]*Term{k}, mkImplies(inRange(k), mkAnd(inRange(pk), mkEq(mkApp(q, SInt, pk), k))), []*Term{pk}))
		vc.assume(st, mkForall([]*Term{k}, mkImplies(inRange(k), mkAnd(inRange(qk), mkEq(mkApp(p, SInt, qk), k))), []*Term{qk}))
		fams := famKeysFor("E", et, "", et)
		for _, fk := range sortedKeys(fams) {
			srt := fams[fk]
			arr := vc.famGet(st, fk, srt)
			oldIn := vc.fresh("inner$presort", srt.V)
			vc.assumeGlobal(mkEq(oldIn, mkSelect(arr, sl.Base)))
			newIn := vc.fresh("inner$sorted", srt.V)
			// an empty window: nothing at all moves (stated as an equality so that no extensionality is needed)
			vc.assume(st, mkImplies(mkCmp("<=", sl.Len, mkInt(0)), mkEq(newIn, oldIn)))
			// outside the sorted window nothing moves
			vc.assume(st, mkForall([]*Term{k}, mkImplies(mkNot(inRange(k)), mkEq(mkSelect(newIn, k), mkSelect(oldIn, k))), []*Term{mkSelect(newIn, k)}))
			vc.assume(st, mkForall([]*Term{k}, mkImplies(inRange(k), mkEq(mkSelect(newIn, pk), mkSelect(oldIn, k))), []*Term{mkSelect(oldIn, k)}))
			vc.assume(st, mkForall([]*Term{k}, mkImplies(inRange(k), mkEq(mkSelect(newIn, k), mkSelect(oldIn, qk))), []*Term{mkSelect(newIn, k)}))
			restore := vc.withTouch(sl.Base)
			vc.famSet(st, fk, mkStore(arr, sl.Base, newIn))
			restore()
		}
		// 3. ordered by the closure's contract, in the state after the sort
		less := func(a, b *Term) *Term {
			env := vc.paramEnv(clo.Fn, fc, []Val{&VS{a}, &VS{b}}, clo.Bind, st, st)
			bindResults(env, sig, []Val{&VS{tTrue}})
			var cs []*Term
			for _, ec := range fc.Ensures {
				if ec.Internal {
					continue
				}
				cs = append(cs, env.clause(ec))
			}
			return mkAnd(cs...)
		}
		// stated over absolute positions a < b of the backing array so that instances are found by matching on
		// the element reads themselves
		ri, rj := mkSub(i, lo), mkSub(j, lo)
		var pats [][]*Term
		for _, fk := range sortedKeys(fams) {
			in := mkSelect(vc.famGet(st, fk, fams[fk]), sl.Base)
			pats = append(pats, []*Term{mkSelect(in, i), mkSelect(in, j)})
			break
		}
		ordered := mkForall([]*Term{i, j}, mkImplies(mkAnd(mkCmp("<=", lo, i), mkCmp("<", i, j), mkCmp("<", j, hi)), mkOr(less(ri, rj), mkNot(less(rj, ri)))), pats...)
		vc.assume(st, ordered)
		return nil
	}
	n["sort.Slice"] = f
	n["sort.SliceStable"] = f
}
