package main

// Contract files: comment-only Go files (//go:build verif) whose //@ lines carry
// requires / ensures / modifies / loop invariants, pure spec functions, lemmas,
// ghost fields and devirtualisation declarations.  Extern (assumed) contracts use
// the same syntax in /verif/specs/*.vc.

import (
	"fmt"
	"os"
	"regexp"
	"sort"
	"strconv"
	"strings"
)

type Clause struct {
	Local bool
	Internal bool
	HasUses bool
	Uses []string
	Name  string
	Props []string
	Expr  *SExpr
	Src   string
	File  string
	Line  int
}

type LoopSpec struct {
	Invariants []*Clause
	Decreases  *Clause
}

type FuncContract struct {
	Key        string // ssa function string, e.g. (*pkg/path.T).M or pkg/path.F ; closures: ...$1
	PkgPath    string
	Header     string
	ParamNames []string // optional positional names from the header (receiver first if any)
	Props      []string
	Requires   []*Clause
	Ensures    []*Clause
	Modifies   []*SExpr
	ModSrc     string
	HasMod     bool
	Loops      map[int]*LoopSpec
	Inline     bool
	Trusted    bool
	Extern     bool
	Pure       bool // no heap effect, may be used at call sites without havoc
	Flags      map[string]string
	File       string
	Line       int
	Used       bool
	Ghost      []*GhostAssign
	Trusts     []*Clause
	Yields     []*Clause
	Hints      []ObligHint
	AtCalls    []AtCall
	Exhausts   []*Clause
}

type PureFunc struct {
	PkgPath  string
	RecvName string
	RecvType *SType
	Name     string
	Params   []SVar
	Result   *SType
	Body     *SExpr // nil => uninterpreted
	Src      string
	Opaque   bool
	Reads    []*SExpr
}

type Lemma struct {
	Name    string
	Props   []string
	Expr    *SExpr
	Src     string
	PkgPath string
	File    string
	Line    int
}

type GhostField struct {
	DeclPkg  string
	File     string
	PkgPath  string
	TypeName string
	Field    string
	Type     *SType
}

type Devirt struct {
	Iface string // pkgalias.Name
	Impl  string // *pkgalias.Name
	Pkg   string
}

type Contracts struct {
	Funcs   map[string]*FuncContract
	Pures   map[string]*PureFunc // key: pkgpath + "." + [RecvTypeName + "."] + name
	Lemmas  []*Lemma
	Ghosts  []*GhostField
	GhostVars map[string]*GhostField // ghost globals by name
	Devirts []*Devirt
	Imports map[string]map[string]string // per contract file pkgpath: alias -> import path
	Axioms  []*Lemma
}

func newContracts() *Contracts {
	return &Contracts{Funcs: map[string]*FuncContract{}, Pures: map[string]*PureFunc{}, Imports: map[string]map[string]string{}}
}

var reHeader = regexp.MustCompile(`^func\s*(\(\s*(\w+)?\s*(\*?)\s*([\w.]+)\s*\))?\s*([\w$.]+)\s*(\((.*)\))?`)
var reClauseName = regexp.MustCompile(`^#([\w.$@-]+)\s*(\[([^\]]*)\])?\s*(local|internal)?\s*(uses\(([^)]*)\))?\s*:\s*`)

var reHint = regexp.MustCompile(`^(\S+)\s+uses\(([^)]*)\)\s*$`)

// ObligHint: a uses() whitelist for obligations whose name matches Pat.
type ObligHint struct {
	Pat  *regexp.Regexp
	Uses []string
}

// AtCall: a caller-side obligation at the call sites whose callee matches Pat.
type AtCall struct {
	Pat    *regexp.Regexp
	Clause *Clause
}

var subKeywords = map[string]bool{"atcall": true, "hint": true, "props": true, "requires": true, "ensures": true, "modifies": true, "loop": true, "inline": true, "trusted": true, "flag": true, "pure": true, "ghost": true, "trusts": true, "yields": true, "exhausts": true}

// GhostAssign: `ghost x.f := expr` — ghost update performed at function exit (ghost state is never read by
// executable code, so deferring all ghost updates to the exit is equivalent to performing them in place).
type GhostAssign struct {
	Target *SExpr
	Value  *SExpr
	Src    string
	File   string
	Line   int
}
var topKeywords = map[string]bool{"import": true, "func": true, "extern": true, "pure": true, "pred": true, "opaque": true, "ghost": true, "devirt": true, "lemma": true, "axiom": true}

type rawLine struct {
	text string
	file string
	line int
}

// extract //@ lines from a file, joining continuation lines.
func readContractLines(path string) ([]rawLine, error) {
	data, err := os.ReadFile(path)
	if err != nil {
		return nil, err
	}
	var out []rawLine
	for i, l := range strings.Split(string(data), "\n") {
		s := strings.TrimLeft(l, " \t")
		var body string
		if strings.HasPrefix(s, "//@") {
			body = s[3:]
		} else if strings.HasPrefix(s, "// @") {
			body = s[4:]
		} else {
			continue
		}
		// strip trailing comment
		if j := strings.Index(body, " // "); j >= 0 {
			body = body[:j]
		}
		trim := strings.TrimSpace(body)
		if trim == "" {
			continue
		}
		first := strings.Fields(trim)[0]
		indented := strings.HasPrefix(body, "  ") || strings.HasPrefix(body, "\t") || strings.HasPrefix(body, " \t")
		isNew := false
		if !indented && topKeywords[first] {
			isNew = true
		} else if indented && subKeywords[first] {
			isNew = true
		}
		if isNew || len(out) == 0 {
			kind := "top "
			if indented {
				kind = "sub "
			}
			out = append(out, rawLine{text: kind + trim, file: path, line: i + 1})
		} else {
			out[len(out)-1].text += " " + trim
		}
	}
	return out, nil
}

func (cs *Contracts) loadFile(path string, pkgPath string, isExternFile bool) error {
	lines, err := readContractLines(path)
	if err != nil {
		return err
	}
	if cs.Imports[path] == nil {
		cs.Imports[path] = map[string]string{}
	}
	imports := cs.Imports[path]
	var cur *FuncContract
	fail := func(l rawLine, f string, a ...interface{}) error {
		return fmt.Errorf("%s:%d: %s", l.file, l.line, fmt.Sprintf(f, a...))
	}
	for _, l := range lines {
		kind, text := l.text[:3], l.text[4:]
		fields := strings.Fields(text)
		kw := fields[0]
		rest := strings.TrimSpace(text[len(kw):])
		if kind == "top" {
			cur = nil
			switch kw {
			case "import":
				if len(fields) != 3 {
					return fail(l, "import alias \"path\"")
				}
				p, _ := strconv.Unquote(fields[2])
				imports[fields[1]] = p
			case "extern", "func":
				ext := kw == "extern"
				hdr := text
				if ext {
					hdr = rest
				}
				fc, err := parseHeader(hdr, pkgPath, imports)
				if err != nil {
					return fail(l, "%v", err)
				}
				fc.Extern = ext
				fc.File, fc.Line = l.file, l.line
				fc.Loops = map[int]*LoopSpec{}
				fc.Flags = map[string]string{}
				if old, ok := cs.Funcs[fc.Key]; ok {
					return fail(l, "duplicate contract for %s (first at %s:%d)", fc.Key, old.File, old.Line)
				}
				cs.Funcs[fc.Key] = fc
				cur = fc
			case "pure", "pred", "opaque":
				opaque := false
				if kw == "opaque" {
					// opaque pred ...: expanded only inside its own package; elsewhere an uninterpreted function of its
					// arguments and of the values of its declared `reads` footprint (framing by congruence)
					opaque = true
					if len(fields) < 2 || (fields[1] != "pred" && fields[1] != "pure") {
						return fail(l, "opaque pred|pure ...")
					}
					kw = fields[1]
					rest = strings.TrimSpace(rest[len(fields[1]):])
				}
				pf, err := parsePure(rest, pkgPath, kw == "pred")
				if err != nil {
					return fail(l, "%v", err)
				}
				pf.Opaque = opaque
				if opaque && len(pf.Reads) == 0 {
					return fail(l, "opaque predicate needs a reads clause")
				}
				pf.Src = text
				key := pureKey(pf.PkgPath, recvTypeName(pf.RecvType), pf.Name)
				if _, ok := cs.Pures[key]; ok {
					return fail(l, "duplicate pure function %s", key)
				}
				cs.Pures[key] = pf
			case "ghost":
				// ghost var name Type: a ghost global (one flat namespace)
				if len(fields) >= 4 && fields[1] == "var" {
					ty, err := parseSpecType(strings.Join(fields[3:], " "))
					if err != nil {
						return fail(l, "%v", err)
					}
					if cs.GhostVars == nil {
						cs.GhostVars = map[string]*GhostField{}
					}
					cs.GhostVars[fields[2]] = &GhostField{PkgPath: pkgPath, Field: fields[2], Type: ty, DeclPkg: pkgPath, File: path}
					continue
				}
				// ghost field T.name Type
				if len(fields) < 4 || fields[1] != "field" {
					return fail(l, "ghost field T.name Type")
				}
				tn := strings.Split(fields[2], ".")
				gpkg := pkgPath
				if len(tn) == 3 { // alias.Type.field
					gpkg = resolvePkg(tn[0], pkgPath, imports)
					tn = tn[1:]
				}
				if len(tn) != 2 {
					return fail(l, "ghost field [pkg.]T.name Type")
				}
				ty, err := parseSpecType(strings.Join(fields[3:], " "))
				if err != nil {
					return fail(l, "%v", err)
				}
				cs.Ghosts = append(cs.Ghosts, &GhostField{PkgPath: gpkg, TypeName: tn[0], Field: tn[1], Type: ty, DeclPkg: pkgPath, File: path})
			case "devirt":
				parts := strings.Split(rest, "=>")
				if len(parts) != 2 {
					return fail(l, "devirt Iface => Impl")
				}
				cs.Devirts = append(cs.Devirts, &Devirt{Iface: strings.TrimSpace(parts[0]), Impl: strings.TrimSpace(parts[1]), Pkg: pkgPath})
			case "lemma", "axiom":
				c, err := parseClause(rest, l)
				if err != nil {
					return fail(l, "%v", err)
				}
				lm := &Lemma{Name: c.Name, Props: c.Props, Expr: c.Expr, Src: c.Src, PkgPath: pkgPath, File: l.file, Line: l.line}
				if kw == "lemma" {
					cs.Lemmas = append(cs.Lemmas, lm)
				} else {
					cs.Axioms = append(cs.Axioms, lm)
				}
			}
			continue
		}
		if cur == nil {
			return fail(l, "clause %q outside a func contract", kw)
		}
		switch kw {
		case "props":
			cur.Props = append(cur.Props, fields[1:]...)
		case "ghost":
			parts := strings.SplitN(rest, ":=", 2)
			if len(parts) != 2 {
				return fail(l, "ghost target := expr")
			}
			te, err := parseSpecExpr(strings.TrimSpace(parts[0]))
			if err != nil {
				return fail(l, "%v", err)
			}
			ve, err := parseSpecExpr(strings.TrimSpace(parts[1]))
			if err != nil {
				return fail(l, "%v", err)
			}
			if te.Kind != SSel && te.Kind != SIdent {
				return fail(l, "ghost assignment target must be a ghost field x.f")
			}
			cur.Ghost = append(cur.Ghost, &GhostAssign{Target: te, Value: ve, Src: rest, File: l.file, Line: l.line})
		case "atcall":
			// atcall <callee regexp> requires #name [props]: expr
			// an obligation of THIS function at each of its call sites whose callee matches: expr is evaluated in
			// the caller's state just before the call and may mention the caller's locals (an in-body assertion
			// anchored to what is called, not to a line number)
			f2 := strings.Fields(rest)
			if len(f2) < 3 || f2[1] != "requires" {
				return fail(l, "atcall <callee regexp> requires #name: expr")
			}
			re, err := regexp.Compile(f2[0])
			if err != nil {
				return fail(l, "%v", err)
			}
			ctext := strings.TrimSpace(rest[strings.Index(rest, "requires")+len("requires"):])
			c, err := parseClause(ctext, l)
			if err != nil {
				return fail(l, "%v", err)
			}
			cur.AtCalls = append(cur.AtCalls, AtCall{Pat: re, Clause: c})
		case "hint":
			// hint <obligation-name regexp> uses(a, b, ...): proof-slicing hint for obligations of this function
			// that do not stem from one of its own clauses (call-site preconditions, safety checks)
			m := reHint.FindStringSubmatch(rest)
			if m == nil {
				return fail(l, "hint <regexp> uses(a, b, ...)")
			}
			re, err := regexp.Compile(m[1])
			if err != nil {
				return fail(l, "%v", err)
			}
			h := ObligHint{Pat: re}
			for _, u := range strings.Split(m[2], ",") {
				if u = strings.TrimPrefix(strings.TrimSpace(u), "#"); u != "" {
					h.Uses = append(h.Uses, u)
				}
			}
			cur.Hints = append(cur.Hints, h)
		case "inline":
			cur.Inline = true
		case "trusted":
			cur.Trusted = true
		case "pure":
			cur.Pure = true
		case "flag":
			if len(fields) >= 3 {
				cur.Flags[fields[1]] = strings.Join(fields[2:], " ")
			} else if len(fields) == 2 {
				cur.Flags[fields[1]] = "true"
			}
		case "requires", "ensures", "trusts", "yields", "exhausts":
			c, err := parseClause(rest, l)
			if err != nil {
				return fail(l, "%v", err)
			}
			switch kw {
			case "requires":
				cur.Requires = append(cur.Requires, c)
			case "ensures":
				cur.Ensures = append(cur.Ensures, c)
			case "exhausts":
				// exhausts: what holds when an iterating method ran out of elements (visited(x) = x was yielded)
				cur.Exhausts = append(cur.Exhausts, c)
			case "yields":
				// yields: what holds for the arguments of every callback invocation of an iterating method (flag iterates)
				cur.Yields = append(cur.Yields, c)
			default:
				// trusts: a postcondition assumed at call sites but NOT proved for the body (listed as an assumption)
				cur.Trusts = append(cur.Trusts, c)
			}
		case "modifies":
			cur.HasMod = true
			cur.ModSrc += rest
			if strings.TrimSpace(rest) == "" || strings.TrimSpace(rest) == "nothing" {
				continue
			}
			e, err := parseSpecExpr("f(" + rest + ")")
			if err != nil {
				return fail(l, "%v", err)
			}
			cur.Modifies = append(cur.Modifies, e.Args...)
		case "loop":
			if len(fields) < 3 {
				return fail(l, "loop N invariant|decreases ...")
			}
			n, err := strconv.Atoi(fields[1])
			if err != nil {
				return fail(l, "loop ordinal: %v", err)
			}
			ls := cur.Loops[n]
			if ls == nil {
				ls = &LoopSpec{}
				cur.Loops[n] = ls
			}
			body := strings.TrimSpace(strings.TrimPrefix(strings.TrimSpace(rest[len(fields[1]):]), fields[2]))
			switch fields[2] {
			case "invariant":
				c, err := parseClause(body, l)
				if err != nil {
					return fail(l, "%v", err)
				}
				ls.Invariants = append(ls.Invariants, c)
			case "decreases":
				c, err := parseClause("#decreases: "+body, l)
				if err != nil {
					return fail(l, "%v", err)
				}
				ls.Decreases = c
			default:
				return fail(l, "loop N invariant|decreases ...")
			}
		}
	}
	return nil
}

func parseClause(s string, l rawLine) (*Clause, error) {
	c := &Clause{File: l.file, Line: l.line}
	m := reClauseName.FindStringSubmatch(s)
	if m == nil {
		return nil, fmt.Errorf("clause needs a #name: prefix: %q", s)
	}
	c.Name = m[1]
	if m[3] != "" {
		c.Props = strings.Fields(m[3])
	}
	// `local`: a postcondition about the package's own representation; proved for the body, but only assumed
	// at call sites inside the same package (callers elsewhere see the abstract clauses only)
	c.Local = m[4] == "local"
	// `internal`: checked at every exit of the body and may mention the function's local variables (their
	// values at that exit); never assumed at call sites
	c.Internal = m[4] == "internal"
	// uses(a, b): when this clause is proved as a loop invariant at a back edge, only the named invariants of the
	// same loop are assumed at the loop head (plus everything that is not a loop invariant): a proof-slicing hint
	if m[5] != "" {
		c.HasUses = true
		for _, u := range strings.Split(m[6], ",") {
			if u = strings.TrimPrefix(strings.TrimSpace(u), "#"); u != "" {
				c.Uses = append(c.Uses, u)
			}
		}
	}
	c.Src = strings.TrimSpace(s[len(m[0]):])
	e, err := parseSpecExpr(c.Src)
	if err != nil {
		return nil, err
	}
	c.Expr = e
	return c, nil
}

func parseSpecType(s string) (*SType, error) {
	toks, err := slex(s)
	if err != nil {
		return nil, err
	}
	p := &sparser{toks: toks, src: s}
	var ty *SType
	func() {
		defer func() {
			if r := recover(); r != nil {
				err = fmt.Errorf("%v", r)
			}
		}()
		ty = p.typ()
	}()
	return ty, err
}

func resolvePkg(alias, pkgPath string, imports map[string]string) string {
	if alias == "" {
		return pkgPath
	}
	if p, ok := imports[alias]; ok {
		return p
	}
	return alias
}

func parseHeader(h string, pkgPath string, imports map[string]string) (*FuncContract, error) {
	m := reHeader.FindStringSubmatch(strings.TrimSpace(h))
	if m == nil {
		return nil, fmt.Errorf("cannot parse function header %q", h)
	}
	fc := &FuncContract{Header: h, PkgPath: pkgPath}
	name := m[5]
	params := m[7]
	if m[1] != "" {
		tn := m[4]
		pp := pkgPath
		if i := strings.LastIndex(tn, "."); i >= 0 {
			pp = resolvePkg(tn[:i], pkgPath, imports)
			tn = tn[i+1:]
		}
		fc.PkgPath = pp
		if m[3] == "*" {
			fc.Key = "(*" + pp + "." + tn + ")." + name
		} else {
			fc.Key = "(" + pp + "." + tn + ")." + name
		}
		if m[2] != "" {
			fc.ParamNames = append(fc.ParamNames, m[2])
		} else {
			fc.ParamNames = append(fc.ParamNames, "_")
		}
	} else {
		pp := pkgPath
		if i := strings.LastIndex(name, "."); i >= 0 {
			pp = resolvePkg(name[:i], pkgPath, imports)
			name = name[i+1:]
		}
		// "pkg.Func" form is matched by [\w$]+ only without dot; handle alias form "alias.Func" below
		fc.PkgPath = pp
		fc.Key = pp + "." + name
	}
	if strings.TrimSpace(params) != "" {
		depth := 0
		cur := ""
		var parts []string
		for _, c := range params {
			switch c {
			case '(', '[', '{':
				depth++
			case ')', ']', '}':
				depth--
			}
			if c == ',' && depth == 0 {
				parts = append(parts, cur)
				cur = ""
				continue
			}
			cur += string(c)
		}
		parts = append(parts, cur)
		for _, p := range parts {
			f := strings.Fields(p)
			if len(f) > 0 {
				fc.ParamNames = append(fc.ParamNames, f[0])
			}
		}
	}
	return fc, nil
}

var rePure = regexp.MustCompile(`^func\s*(\(\s*(\w+)\s+([^)]+)\))?\s*(\w+)\s*\(([^)]*)\)\s*([^=]*?)\s*(=\s*(.*))?$`)

func parsePure(s string, pkgPath string, isPred bool) (*PureFunc, error) {
	s = strings.TrimSpace(s)
	if !strings.HasPrefix(s, "func") {
		s = "func " + s
	}
	m := rePure.FindStringSubmatch(s)
	if m == nil {
		return nil, fmt.Errorf("cannot parse pure function %q", s)
	}
	pf := &PureFunc{PkgPath: pkgPath, Name: m[4]}
	if m[1] != "" {
		pf.RecvName = m[2]
		ty, err := parseSpecType(m[3])
		if err != nil {
			return nil, err
		}
		pf.RecvType = ty
	}
	if strings.TrimSpace(m[5]) != "" {
		// params: "a, b int, c T"
		parts := strings.Split(m[5], ",")
		var pending []string
		for _, p := range parts {
			f := strings.Fields(p)
			if len(f) == 1 {
				pending = append(pending, f[0])
				continue
			}
			ty, err := parseSpecType(strings.Join(f[1:], " "))
			if err != nil {
				return nil, err
			}
			for _, n := range pending {
				pf.Params = append(pf.Params, SVar{n, ty})
			}
			pending = nil
			pf.Params = append(pf.Params, SVar{f[0], ty})
		}
		if len(pending) > 0 {
			return nil, fmt.Errorf("parameter without type in %q", s)
		}
	}
	rt := strings.TrimSpace(m[6])
	// optional footprint: `reads a.f, map(m), elems(s), all(p)` between the result type and '='
	if i := strings.Index(rt, "reads "); i >= 0 {
		rd := strings.TrimSpace(rt[i+len("reads "):])
		rt = strings.TrimSpace(rt[:i])
		re, err := parseSpecExpr("f(" + rd + ")")
		if err != nil {
			return nil, err
		}
		pf.Reads = re.Args
	}
	if isPred && rt == "" {
		rt = "bool"
	}
	if rt == "" {
		return nil, fmt.Errorf("pure function needs a result type: %q", s)
	}
	ty, err := parseSpecType(rt)
	if err != nil {
		return nil, err
	}
	pf.Result = ty
	if m[8] != "" {
		e, err := parseSpecExpr(m[8])
		if err != nil {
			return nil, err
		}
		pf.Body = e
	}
	return pf, nil
}

func recvTypeName(t *SType) string {
	if t == nil {
		return ""
	}
	if t.Kind == "ptr" {
		return recvTypeName(t.Elem)
	}
	return t.Name
}

func pureKey(pkg, recv, name string) string {
	if recv != "" {
		return pkg + "." + recv + "." + name
	}
	return pkg + "." + name
}

func (cs *Contracts) sortedFuncKeys() []string {
	ks := make([]string, 0, len(cs.Funcs))
	for k := range cs.Funcs {
		ks = append(ks, k)
	}
	sort.Strings(ks)
	return ks
}
