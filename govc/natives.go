package main

// Native (Go-coded) models of external functions; all are assumptions and are noted in the ledger.

import (
	"fmt"
	"go/token"
	"go/types"
	"strings"

	"golang.org/x/tools/go/ssa"
)

func registerNatives(e *Engine) map[string]nativeFn {
	n := map[string]nativeFn{}
	isFn := func(fr *Frame, st *State, args []Val, c *ssa.CallCommon, pos string) Val {
		a := scalarOf(args[0], nil)
		b := scalarOf(args[1], nil)
		fr.vc.note("native model: errors.Is(e,t) = (e == t) or wraps(e,t); sentinels wrap nothing")
		return &VS{fr.vc.errorsIs(a, b)}
	}
	n["errors.Is"] = isFn
	n["github.com/pkg/errors.Is"] = isFn
	newErr := func(fr *Frame, st *State, args []Val, c *ssa.CallCommon, pos string) Val {
		r := fr.vc.newRef(st, "err")
		t := mkVar("t!", SRef)
		fr.vc.assume(st, mkForall([]*Term{t}, mkNot(mkApp("wraps", SBool, r, t)), []*Term{mkApp("wraps", SBool, r, t)}))
		return &VS{r}
	}
	n["errors.New"] = newErr
	n["github.com/pkg/errors.New"] = newErr
	n["fmt.Errorf"] = func(fr *Frame, st *State, args []Val, c *ssa.CallCommon, pos string) Val {
		r := fr.vc.newRef(st, "err")
		// %w: wraps the error-typed variadic arguments
		if fc, ok := c.Args[0].(*ssa.Const); ok && strings.Contains(fc.Value.ExactString(), "%w") {
			if s, ok := args[1].(*VSlice); ok && s.Len.Kind == TInt {
				arr := fr.vc.famGet(st, "E$interface{}", SArr(SRef, SArr(SInt, SRef)))
				for k := int64(0); k < s.Len.Int.Int64(); k++ {
					el := mkSelect(mkSelect(arr, s.Base), mkAdd(s.Off, mkInt(k)))
					t := mkVar("t!", SRef)
					// wraps(r, t) if el == t or wraps(el, t) for an error element; other elements are boxed non-errors
					fr.vc.assume(st, mkImplies(mkApp("iserror", SBool, el), mkAnd(mkApp("wraps", SBool, r, el),
						mkForall([]*Term{t}, mkImplies(mkApp("wraps", SBool, el, t), mkApp("wraps", SBool, r, t)), []*Term{mkApp("wraps", SBool, el, t)}))))
				}
			}
		}
		return &VS{r}
	}
	strHavoc := func(fr *Frame, st *State, args []Val, c *ssa.CallCommon, pos string) Val {
		return fr.vc.havocResults(st, c.Signature())
	}
	for _, f := range []string{"fmt.Sprintf", "fmt.Sprint", "fmt.Sprintln", "fmt.Printf", "fmt.Println", "fmt.Fprintf", "log.Printf", "log.Println", "log.Print",
		"(*log.Logger).Printf", "(*log.Logger).Println", "(*log.Logger).Print", "fmt.Fprintln", "fmt.Fprint",
		"(" + e.modPath + "/pkg/flog.Verbose).Printf", "(" + e.modPath + "/pkg/flog.Verbose).Println", "(" + e.modPath + "/pkg/flog.Verbose).Print"} {
		n[f] = strHavoc
	}
	// time
	n["time.Now"] = func(fr *Frame, st *State, args []Val, c *ssa.CallCommon, pos string) Val {
		vc := fr.vc
		v := vc.havocVal(st, c.Signature().Results().At(0).Type(), "now")
		nanos := timeNanos(v)
		vc.assume(st, rangeFact(nanos, types.Typ[types.Int64]))
		vc.assume(st, mkAnd(mkCmp(">", nanos, mkInt(0)), mkCmp("<=", nanos, mkBig(pow2(62)))))
		// the clock is part of the state ($now): monotone along every path
		vc.assume(st, mkCmp(">=", nanos, vc.nowOf(st)))
		st.heap[nowKey] = nanos
		vc.note("native model: time.Now() returns a fresh instant, monotone along the path")
		return v
	}
	n["time.UnixMilli"] = func(fr *Frame, st *State, args []Val, c *ssa.CallCommon, pos string) Val {
		vc := fr.vc
		v := vc.havocVal(st, c.Signature().Results().At(0).Type(), "unixmilli")
		vc.assume(st, mkEq(timeNanos(v), mkMul(scalarOf(args[0], nil), mkInt(1000000))))
		vc.note("native model: time.UnixMilli(ms) is the instant ms*1e6 ns (no overflow of the nanosecond count)")
		return v
	}
	until := func(fr *Frame, st *State, args []Val, c *ssa.CallCommon, pos string) Val {
		vc := fr.vc
		// reads the clock like time.Now()
		now := vc.fresh("until$now", SInt)
		vc.assume(st, mkAnd(mkCmp(">", now, mkInt(0)), mkCmp("<=", now, mkBig(pow2(62))), mkCmp(">=", now, vc.nowOf(st))))
		st.heap[nowKey] = now
		vc.note("native model: time.Until(t) = t - (fresh monotone clock reading), no saturation")
		return &VS{vc.nameIfBig(mkSub(timeNanos(args[0]), now))}
	}
	n["time.Until"] = until
	n["(time.Time).UnixNano"] = func(fr *Frame, st *State, args []Val, c *ssa.CallCommon, pos string) Val {
		return &VS{timeNanos(args[0])}
	}
	n["(time.Time).UnixMilli"] = func(fr *Frame, st *State, args []Val, c *ssa.CallCommon, pos string) Val {
		return &VS{fr.vc.nameIfBig(mkApp("div", SInt, timeNanos(args[0]), mkInt(1000000)))}
	}
	n["(time.Time).Unix"] = func(fr *Frame, st *State, args []Val, c *ssa.CallCommon, pos string) Val {
		return &VS{fr.vc.nameIfBig(mkApp("div", SInt, timeNanos(args[0]), mkInt(1000000000)))}
	}
	n["(time.Duration).Nanoseconds"] = func(fr *Frame, st *State, args []Val, c *ssa.CallCommon, pos string) Val {
		return args[0]
	}
	n["(time.Duration).Milliseconds"] = func(fr *Frame, st *State, args []Val, c *ssa.CallCommon, pos string) Val {
		d := scalarOf(args[0], nil)
		return fr.binop(token.QUO, types.Typ[types.Int64], &VS{d}, &VS{mkInt(1000000)}, types.Typ[types.Int64], st, pos)
	}
	n["(time.Duration).Seconds"] = func(fr *Frame, st *State, args []Val, c *ssa.CallCommon, pos string) Val {
		d := scalarOf(args[0], nil)
		fr.vc.note("floating point treated as real: Duration.Seconds")
		return &VS{mkApp("/", SReal, mkApp("to_real", SReal, d), mkReal("1000000000.0"))}
	}
	// encoding/binary big endian
	for _, w := range []int{2, 4, 8} {
		w := w
		bits := w * 8
		n[fmt.Sprintf("(encoding/binary.bigEndian).PutUint%d", bits)] = func(fr *Frame, st *State, args []Val, c *ssa.CallCommon, pos string) Val {
			vc := fr.vc
			s := args[1].(*VSlice)
			v := scalarOf(args[2], nil)
			vc.oblige(st, "bounds", fr.name(fmt.Sprintf("putuint%d.len@%s", bits, shortPos(pos))), pos, fmt.Sprintf("PutUint%d needs %d bytes", bits, w), mkCmp(">=", s.Len, mkInt(int64(w))), nil)
			key := "E$uint8"
			srt := SArr(SRef, SArr(SInt, SInt))
			arr := vc.famGet(st, key, srt)
			inner := mkSelect(arr, s.Base)
			for k := 0; k < w; k++ {
				inner = mkStore(inner, mkAdd(s.Off, mkInt(int64(k))), mkApp(fmt.Sprintf("byte%d_%d", w, k), SInt, v))
			}
			ni := vc.fresh("inner$uint8", SArr(SInt, SInt))
			vc.assumeGlobal(mkEq(ni, inner))
			restore := vc.withTouch(s.Base)
			vc.famSet(st, key, mkStore(arr, s.Base, ni))
			restore()
			vc.eng.usePack(vc, w)
			return nil
		}
		n[fmt.Sprintf("(encoding/binary.bigEndian).Uint%d", bits)] = func(fr *Frame, st *State, args []Val, c *ssa.CallCommon, pos string) Val {
			vc := fr.vc
			s := args[1].(*VSlice)
			vc.oblige(st, "bounds", fr.name(fmt.Sprintf("uint%d.len@%s", bits, shortPos(pos))), pos, fmt.Sprintf("Uint%d needs %d bytes", bits, w), mkCmp(">=", s.Len, mkInt(int64(w))), nil)
			r := packBytes(vc.bytesArr(st, s.Base), s.Off, w)
			vc.assume(st, mkAnd(mkCmp("<=", mkInt(0), r), mkCmp("<", r, mkBig(pow2(bits)))))
			vc.eng.usePack(vc, w)
			return &VS{r}
		}
	}
	// strings / bytes
	n["strings.ToUpper"] = func(fr *Frame, st *State, args []Val, c *ssa.CallCommon, pos string) Val {
		return &VS{mkApp("str.upper", SStr, scalarOf(args[0], nil))}
	}
	n["strings.ToLower"] = func(fr *Frame, st *State, args []Val, c *ssa.CallCommon, pos string) Val {
		return &VS{mkApp("str.lower", SStr, scalarOf(args[0], nil))}
	}
	n["strings.EqualFold"] = func(fr *Frame, st *State, args []Val, c *ssa.CallCommon, pos string) Val {
		return &VS{mkEq(mkApp("str.lower", SStr, scalarOf(args[0], nil)), mkApp("str.lower", SStr, scalarOf(args[1], nil)))}
	}
	n["github.com/tidwall/match.Match"] = func(fr *Frame, st *State, args []Val, c *ssa.CallCommon, pos string) Val {
		fr.vc.note("native model: match.Match(str, pattern) is an uninterpreted predicate glob_match(str, pattern)")
		return &VS{mkApp("uf$glob_match", SBool, scalarOf(args[0], nil), scalarOf(args[1], nil))}
	}
	n["bytes.Equal"] = func(fr *Frame, st *State, args []Val, c *ssa.CallCommon, pos string) Val {
		a, b := args[0].(*VSlice), args[1].(*VSlice)
		return &VS{mkEq(fr.vc.bytesToStr(st, a), fr.vc.bytesToStr(st, b))}
	}
	n[e.modPath+"/internal/util.BytesToString"] = func(fr *Frame, st *State, args []Val, c *ssa.CallCommon, pos string) Val {
		fr.vc.note("native model: util.BytesToString is content-preserving (aliases its argument)")
		return &VS{fr.vc.bytesToStr(st, args[0].(*VSlice))}
	}
	n[e.modPath+"/internal/util.StringToBytes"] = func(fr *Frame, st *State, args []Val, c *ssa.CallCommon, pos string) Val {
		fr.vc.note("native model: util.StringToBytes is content-preserving")
		return fr.vc.strToBytes(st, scalarOf(args[0], nil))
	}
	// sync/atomic on integers: sequential load/store semantics (interleavings are not explored)
	for _, tn := range []string{"Int64", "Int32", "Uint64", "Uint32"} {
		bt := map[string]types.Type{"Int64": types.Typ[types.Int64], "Int32": types.Typ[types.Int32], "Uint64": types.Typ[types.Uint64], "Uint32": types.Typ[types.Uint32]}[tn]
		n["sync/atomic.Add"+tn] = func(fr *Frame, st *State, args []Val, c *ssa.CallCommon, pos string) Val {
			fr.vc.note("native model: sync/atomic operations are sequential loads/stores; interleavings are not explored")
			p := asPtr(args[0], bt)
			old := fr.vc.loadPtr(st, p, bt)
			nv := fr.binop(token.ADD, bt, old, args[1], bt, st, pos)
			fr.vc.storePtr(st, p, bt, nv)
			return nv
		}
		n["sync/atomic.Load"+tn] = func(fr *Frame, st *State, args []Val, c *ssa.CallCommon, pos string) Val {
			fr.vc.note("native model: sync/atomic operations are sequential loads/stores; interleavings are not explored")
			return fr.vc.loadPtr(st, asPtr(args[0], bt), bt)
		}
		n["sync/atomic.Store"+tn] = func(fr *Frame, st *State, args []Val, c *ssa.CallCommon, pos string) Val {
			fr.vc.note("native model: sync/atomic operations are sequential loads/stores; interleavings are not explored")
			fr.vc.storePtr(st, asPtr(args[0], bt), bt, args[1])
			return nil
		}
	}
	registerSortNatives(e, n)
	// sync primitives: no data effect (lock state is ghost, see contracts)
	for _, f := range []string{"(*sync.Mutex).Lock", "(*sync.Mutex).Unlock", "(*sync.RWMutex).Lock", "(*sync.RWMutex).Unlock", "(*sync.RWMutex).RLock", "(*sync.RWMutex).RUnlock",
		"(*sync.WaitGroup).Add", "(*sync.WaitGroup).Done", "(*sync.WaitGroup).Wait"} {
		n[f] = func(fr *Frame, st *State, args []Val, c *ssa.CallCommon, pos string) Val {
			fr.vc.note("native model: sync primitives have no data effect; interleavings are not explored")
			return nil
		}
	}
	return n
}


func timeNanos(v Val) *Term {
	s := v.(*VStruct)
	return mkApp("unixnano", SInt, scalarOf(s.F[0], nil), scalarOf(s.F[1], nil))
}

func (e *Engine) usePack(vc *VC, w int) {
	vc.note("byte packing modelled with uninterpreted pack/byte functions and the round-trip axiom")
	if vc.ghostVars == nil {
		vc.ghostVars = map[string]*Term{}
	}
	vc.ghostVars[fmt.Sprintf("pack%d", w)] = tTrue
}
