package main

// Loading of /repo (go/packages + go/ssa), contract files, devirtualisation, error sentinels.

import (
	"fmt"
	"go/ast"
	"go/token"
	"go/types"
	"os"
	"path/filepath"
	"sort"
	"strconv"
	"strings"

	"golang.org/x/tools/go/packages"
	"golang.org/x/tools/go/ssa"
	"golang.org/x/tools/go/ssa/ssautil"
)

type nativeFn func(fr *Frame, st *State, args []Val, c *ssa.CallCommon, pos string) Val

type Engine struct {
	repoDir   string
	specDir   string
	modPath   string
	fset      *token.FileSet
	pkgs      []*packages.Package
	allPkgs   map[string]*packages.Package
	prog      *ssa.Program
	contracts *Contracts
	devirt    map[string]types.Type // interface type key -> implementation type
	natives   map[string]nativeFn
	nativeWrites map[string]*writeSet
	typeTags  map[string]bool
	writeCache     map[*ssa.Function]*writeSet
	bodyWriteCache map[*ssa.Function]*writeSet
	smallCache     map[*ssa.Function]bool
	sentCache      map[*ssa.Global]*Term
	initOnceCache  map[*ssa.Global]bool
	importCache    map[*types.Package]map[string]string
	loadErrs       []string
	contractFiles  []string
}

func loadEngine(repoDir, specDir string, patterns []string) (*Engine, error) {
	e := &Engine{repoDir: repoDir, specDir: specDir, devirt: map[string]types.Type{}, typeTags: map[string]bool{},
		writeCache: map[*ssa.Function]*writeSet{}, bodyWriteCache: map[*ssa.Function]*writeSet{}, smallCache: map[*ssa.Function]bool{},
		sentCache: map[*ssa.Global]*Term{}, allPkgs: map[string]*packages.Package{}, importCache: map[*types.Package]map[string]string{},
		nativeWrites: map[string]*writeSet{}}
	cfg := &packages.Config{Mode: packages.LoadAllSyntax, Dir: repoDir, BuildFlags: []string{"-tags=verif"},
		Env: append(os.Environ(), "GOFLAGS=-mod=mod", "GOPROXY=off", "GOSUMDB=off", "GOTOOLCHAIN=local")}
	pkgs, err := packages.Load(cfg, patterns...)
	if err != nil {
		return nil, err
	}
	e.pkgs = pkgs
	packages.Visit(pkgs, nil, func(p *packages.Package) {
		e.allPkgs[p.PkgPath] = p
		for _, er := range p.Errors {
			if strings.HasPrefix(p.PkgPath, "github.com/olric-data/olric") {
				e.loadErrs = append(e.loadErrs, er.Error())
			}
		}
	})
	if len(pkgs) > 0 {
		e.fset = pkgs[0].Fset
	}
	for _, p := range pkgs {
		if p.Module != nil {
			e.modPath = p.Module.Path
			break
		}
	}
	if e.modPath == "" {
		e.modPath = "github.com/olric-data/olric"
	}
	prog, _ := ssautil.AllPackages(pkgs, ssa.NaiveForm|ssa.GlobalDebug)
	e.prog = prog
	for _, sp := range prog.AllPackages() {
		if strings.HasPrefix(sp.Pkg.Path(), e.modPath) {
			sp.Build()
		}
	}
	// contracts
	e.contracts = newContracts()
	for path, p := range e.allPkgs {
		if !strings.HasPrefix(path, e.modPath) {
			continue
		}
		for _, f := range p.GoFiles {
			if b := filepath.Base(f); b == "verif_contracts.go" || (strings.HasPrefix(b, "verif_contracts_") && strings.HasSuffix(b, ".go")) {
				if err := e.contracts.loadFile(f, path, false); err != nil {
					return nil, err
				}
				e.contractFiles = append(e.contractFiles, f)
			}
		}
	}
	if specDir != "" {
		files, _ := filepath.Glob(filepath.Join(specDir, "*.vc"))
		sort.Strings(files)
		for _, f := range files {
			if err := e.contracts.loadFile(f, "", true); err != nil {
				return nil, err
			}
			e.contractFiles = append(e.contractFiles, f)
		}
	}
	// devirt
	for _, d := range e.contracts.Devirts {
		it, err := e.resolveTypeString(d.Iface, d.Pkg)
		if err != nil {
			return nil, fmt.Errorf("devirt %s: %v", d.Iface, err)
		}
		im, err := e.resolveTypeString(d.Impl, d.Pkg)
		if err != nil {
			return nil, fmt.Errorf("devirt %s: %v", d.Impl, err)
		}
		e.devirt[typeKey(it)] = im
	}
	e.natives = registerNatives(e)
	return e, nil
}

func (e *Engine) typesPkg(path string) *types.Package {
	if p, ok := e.allPkgs[path]; ok {
		return p.Types
	}
	// by short name among olric packages
	for pp, p := range e.allPkgs {
		if strings.HasSuffix(pp, "/"+path) && strings.HasPrefix(pp, e.modPath) {
			return p.Types
		}
	}
	for pp, p := range e.allPkgs {
		if pp == path || strings.HasSuffix(pp, "/"+path) {
			return p.Types
		}
	}
	return nil
}

func (e *Engine) importsOf(pkg *types.Package) map[string]string {
	if pkg == nil {
		return map[string]string{}
	}
	if m, ok := e.importCache[pkg]; ok {
		return m
	}
	m := map[string]string{}
	if p, ok := e.allPkgs[pkg.Path()]; ok {
		for _, f := range p.Syntax {
			for _, im := range f.Imports {
				path, _ := strconv.Unquote(im.Path.Value)
				name := ""
				if im.Name != nil {
					name = im.Name.Name
				} else if ip, ok := e.allPkgs[path]; ok {
					name = ip.Name
				}
				if name != "" && name != "_" && name != "." {
					m[name] = path
				}
			}
		}
		// contract-file imports
		for _, f := range p.GoFiles {
			if im, ok := e.contracts.Imports[f]; ok {
				for k, v := range im {
					m[k] = v
				}
			}
		}
	}
	e.importCache[pkg] = m
	return m
}

func (e *Engine) resolveTypeString(s string, pkgPath string) (types.Type, error) {
	st, err := parseSpecType(s)
	if err != nil {
		return nil, err
	}
	vc := e.newVC(nil, nil)
	env := vc.newEnv(e.typesPkg(pkgPath), nil, nil)
	var t types.Type
	func() {
		defer func() {
			if r := recover(); r != nil {
				err = fmt.Errorf("%v", r)
			}
		}()
		t = env.resolveType(st)
	}()
	return t, err
}

// sentinel: package-level error variables initialised once by errors.New / fmt.Errorf and never reassigned.
func (e *Engine) sentinel(g *ssa.Global) *Term {
	if t, ok := e.sentCache[g]; ok {
		return t
	}
	e.sentCache[g] = nil
	et := g.Type().(*types.Pointer).Elem()
	if !types.Identical(et, types.Universe.Lookup("error").Type()) {
		return nil
	}
	// find the initialiser in the AST
	p := e.allPkgs[g.Pkg.Pkg.Path()]
	if p == nil {
		return nil
	}
	found := false
	for _, f := range p.Syntax {
		for _, d := range f.Decls {
			gd, ok := d.(*ast.GenDecl)
			if !ok || gd.Tok != token.VAR {
				continue
			}
			for _, s := range gd.Specs {
				vs := s.(*ast.ValueSpec)
				for i, n := range vs.Names {
					if n.Name != g.Name() || i >= len(vs.Values) {
						continue
					}
					if call, ok := vs.Values[i].(*ast.CallExpr); ok {
						if sel, ok := call.Fun.(*ast.SelectorExpr); ok && (sel.Sel.Name == "New" || sel.Sel.Name == "Errorf") {
							found = true
						}
					}
				}
			}
		}
	}
	if !found {
		return nil
	}
	// never stored outside init
	if refs := g.Referrers(); refs != nil {
		_ = refs
	}
	for _, m := range g.Pkg.Members {
		fn, ok := m.(*ssa.Function)
		if !ok || fn.Name() == "init" {
			continue
		}
		if storesTo(fn, g) {
			return nil
		}
	}
	t := mkVar("err!"+shortPkg(g.Pkg.Pkg.Path())+"."+g.Name(), SRef)
	e.sentCache[g] = t
	return t
}

// initOnceNonNil: package-level variable of reference type initialised by `&T{..}`, `T{..}` or a call, never
// stored to outside package initialisation.
func (e *Engine) initOnceNonNil(g *ssa.Global) bool {
	if v, ok := e.initOnceCache[g]; ok {
		return v
	}
	if e.initOnceCache == nil {
		e.initOnceCache = map[*ssa.Global]bool{}
	}
	e.initOnceCache[g] = false
	p := e.allPkgs[g.Pkg.Pkg.Path()]
	if p == nil {
		return false
	}
	found := false
	for _, f := range p.Syntax {
		for _, d := range f.Decls {
			gd, ok := d.(*ast.GenDecl)
			if !ok || gd.Tok != token.VAR {
				continue
			}
			for _, s := range gd.Specs {
				vs := s.(*ast.ValueSpec)
				for i, n := range vs.Names {
					if n.Name != g.Name() || i >= len(vs.Values) {
						continue
					}
					switch x := vs.Values[i].(type) {
					case *ast.CallExpr:
						found = true
					case *ast.UnaryExpr:
						if x.Op == token.AND {
							found = true
						}
					case *ast.CompositeLit:
						found = true
					}
				}
			}
		}
	}
	if !found {
		return false
	}
	for _, m := range g.Pkg.Members {
		fn, ok := m.(*ssa.Function)
		if !ok || fn.Name() == "init" {
			continue
		}
		if storesTo(fn, g) {
			return false
		}
	}
	e.initOnceCache[g] = true
	return true
}

func storesTo(fn *ssa.Function, g *ssa.Global) bool {
	for _, b := range fn.Blocks {
		for _, in := range b.Instrs {
			if s, ok := in.(*ssa.Store); ok && s.Addr == g {
				return true
			}
		}
	}
	for _, a := range fn.AnonFuncs {
		if storesTo(a, g) {
			return true
		}
	}
	return false
}

func (e *Engine) ghostField(t types.Type, name string) *GhostField {
	n, ok := t.(*types.Named)
	if !ok {
		return nil
	}
	for _, g := range e.contracts.Ghosts {
		if g.TypeName == n.Obj().Name() && g.Field == name {
			pp := g.PkgPath
			if i := strings.Index(g.TypeName, "."); i >= 0 {
				_ = i
			}
			if n.Obj().Pkg() != nil && (pp == n.Obj().Pkg().Path() || pp == "") {
				return g
			}
		}
	}
	return nil
}

func (e *Engine) ghostsOf(t types.Type) []*GhostField {
	n, ok := t.(*types.Named)
	if !ok {
		return nil
	}
	var out []*GhostField
	for _, g := range e.contracts.Ghosts {
		if g.TypeName == n.Obj().Name() && n.Obj().Pkg() != nil && g.PkgPath == n.Obj().Pkg().Path() {
			out = append(out, g)
		}
	}
	return out
}

// lookupFunc finds an ssa.Function by its String() form.
func (e *Engine) lookupFunc(key string) *ssa.Function {
	// closure suffixes
	base := key
	var chain []string
	for {
		i := strings.LastIndex(base, "$")
		if i < 0 {
			break
		}
		if _, err := strconv.Atoi(base[i+1:]); err != nil {
			break
		}
		chain = append([]string{base[i+1:]}, chain...)
		base = base[:i]
	}
	var fn *ssa.Function
	if strings.HasPrefix(base, "(") {
		// (*pkg.T).M or (pkg.T).M
		j := strings.LastIndex(base, ").")
		recv := base[1:j]
		name := base[j+2:]
		ptr := strings.HasPrefix(recv, "*")
		recv = strings.TrimPrefix(recv, "*")
		k := strings.LastIndex(recv, ".")
		pkgPath, tn := recv[:k], recv[k+1:]
		tp := e.typesPkg(pkgPath)
		if tp == nil {
			return nil
		}
		obj, ok := tp.Scope().Lookup(tn).(*types.TypeName)
		if !ok {
			return nil
		}
		var t types.Type = obj.Type()
		if ptr {
			t = types.NewPointer(t)
		}
		ms := e.prog.MethodSets.MethodSet(t)
		for i := 0; i < ms.Len(); i++ {
			if ms.At(i).Obj().Name() == name {
				fn = e.prog.MethodValue(ms.At(i))
				break
			}
		}
		if fn != nil && fn.Synthetic != "" && !ptr {
			// value-receiver methods also appear in the pointer method set as wrappers
		}
	} else {
		k := strings.LastIndex(base, ".")
		pkgPath, name := base[:k], base[k+1:]
		tp := e.typesPkg(pkgPath)
		if tp == nil {
			return nil
		}
		sp := e.prog.Package(tp)
		if sp == nil {
			return nil
		}
		fn = sp.Func(name)
	}
	for _, c := range chain {
		if fn == nil {
			return nil
		}
		n, _ := strconv.Atoi(c)
		if n < 1 || n > len(fn.AnonFuncs) {
			return nil
		}
		fn = fn.AnonFuncs[n-1]
	}
	if fn != nil && fn.String() != key {
		// wrappers: e.g. value method found through pointer set
		if fn.Synthetic != "" {
			return nil
		}
	}
	return fn
}
