package main

// Evaluation of contract expressions over symbolic states.

import (
	"fmt"
	"go/constant"
	"go/types"
	"math"
	"math/big"
	"strings"

	"golang.org/x/tools/go/ssa"
)

type TV struct {
	V Val
	T types.Type
}

// spec-only types
type specT struct {
	kind string // set, arr, mathint, type
	k, v types.Type
	ty   types.Type
}

func (s *specT) Underlying() types.Type { return s }
func (s *specT) String() string         { return "spec:" + s.kind }

var mathInt = types.Typ[types.UntypedInt]
var boolT = types.Typ[types.Bool]

type SpecEnv struct {
	vc      *VC
	pkg     *types.Package
	imports map[string]string
	vars    map[string]TV
	st      *State
	old     *State
	fr      *Frame // for locals by name (loop invariants)
	bound   map[string]TV
	qn      *int
	depth   int
	recvPkg string
	atExit  bool // internal clause evaluated at a function exit: unset locals are arbitrary
}

func (env *SpecEnv) with(st *State) *SpecEnv {
	e := *env
	e.st = st
	return &e
}

// unsetLocal: an internal clause mentions a local that is not in scope at the exit being checked
type unsetLocal string

type specErr string

func (env *SpecEnv) fail(f string, a ...interface{}) {
	panic(specErr(fmt.Sprintf(f, a...)))
}

func (vc *VC) newEnv(pkg *types.Package, st, old *State) *SpecEnv {
	n := 0
	return &SpecEnv{vc: vc, pkg: pkg, vars: map[string]TV{}, st: st, old: old, bound: map[string]TV{}, qn: &n, imports: vc.eng.importsOf(pkg)}
}

// evalClause evaluates a boolean clause in the context of frame fr (its function's parameters etc.).
func (vc *VC) evalClause(fr *Frame, c *Clause, st, old *State, extra map[string]TV) (res *Term) {
	defer func() {
		if r := recover(); r != nil {
			if se, ok := r.(specErr); ok {
				panic(unsupported(fmt.Sprintf("contract %s (%s:%d): %s", c.Name, c.File, c.Line, string(se))))
			}
			panic(r)
		}
	}()
	env := vc.frameEnv(fr, st, old)
	for k, v := range extra {
		env.vars[k] = v
	}
	tv := env.eval(c.Expr)
	return env.boolOf(tv)
}

func (vc *VC) evalTerm(fr *Frame, c *Clause, st, old *State, extra map[string]TV) (res *Term) {
	defer func() {
		if r := recover(); r != nil {
			if se, ok := r.(specErr); ok {
				panic(unsupported(fmt.Sprintf("contract %s (%s:%d): %s", c.Name, c.File, c.Line, string(se))))
			}
			panic(r)
		}
	}()
	env := vc.frameEnv(fr, st, old)
	for k, v := range extra {
		env.vars[k] = v
	}
	tv := env.eval(c.Expr)
	return env.scalar(tv)
}

func fnPkgPath(fn *ssa.Function) string {
	if p := fnPkg(fn); p != nil {
		return p.Path()
	}
	return ""
}

func fnPkg(fn *ssa.Function) *types.Package {
	for f := fn; f != nil; f = f.Parent() {
		if f.Pkg != nil {
			return f.Pkg.Pkg
		}
	}
	if fn.Signature.Recv() != nil {
		if n := namedOf(fn.Signature.Recv().Type()); n != nil {
			return n.Obj().Pkg()
		}
	}
	return nil
}

func (vc *VC) frameEnv(fr *Frame, st, old *State) *SpecEnv {
	env := vc.newEnv(fnPkg(fr.fn), st, old)
	env.fr = fr
	return env
}

func (env *SpecEnv) boolOf(tv TV) *Term {
	t := env.scalar(tv)
	if t.Sort != SBool {
		env.fail("expected boolean, got %s", t.Sort)
	}
	return t
}

func (env *SpecEnv) scalar(tv TV) *Term {
	switch x := tv.V.(type) {
	case *VS:
		return x.T
	case *VPtr:
		if (x.Kind == PField || x.Kind == PCell) && len(x.Path) == 0 {
			return x.Base
		}
	}
	env.fail("expected scalar value, got %T", tv.V)
	return nil
}

func untyped(t types.Type) bool {
	b, ok := t.(*types.Basic)
	return ok && b.Info()&types.IsUntyped != 0
}

func (env *SpecEnv) resolveType(t *SType) types.Type {
	switch t.Kind {
	case "ptr":
		return types.NewPointer(env.resolveType(t.Elem))
	case "slice":
		return types.NewSlice(env.resolveType(t.Elem))
	case "map":
		return types.NewMap(env.resolveType(t.Key), env.resolveType(t.Elem))
	case "set":
		return &specT{kind: "set", k: env.resolveType(t.Elem)}
	case "arr":
		return &specT{kind: "arr", v: env.resolveType(t.Elem)}
	}
	if t.Pkg == "" {
		switch t.Name {
		case "ByteArr":
			return &specT{kind: "arr", v: types.Typ[types.Uint8]}
		case "mathint", "Int":
			return mathInt
		case "Ref":
			return types.Typ[types.UnsafePointer]
		}
		if obj := types.Universe.Lookup(t.Name); obj != nil {
			if tn, ok := obj.(*types.TypeName); ok {
				return tn.Type()
			}
		}
		if env.pkg != nil {
			if obj := env.pkg.Scope().Lookup(t.Name); obj != nil {
				if tn, ok := obj.(*types.TypeName); ok {
					return tn.Type()
				}
			}
		}
		env.fail("unknown type %s", t.Name)
	}
	p := env.lookupPkg(t.Pkg)
	if p == nil {
		env.fail("unknown package %s", t.Pkg)
	}
	obj := p.Scope().Lookup(t.Name)
	tn, ok := obj.(*types.TypeName)
	if !ok {
		env.fail("unknown type %s.%s", t.Pkg, t.Name)
	}
	return tn.Type()
}

func (env *SpecEnv) lookupPkg(alias string) *types.Package {
	path := alias
	if p, ok := env.imports[alias]; ok {
		path = p
	}
	return env.vc.eng.typesPkg(path)
}

func (env *SpecEnv) lookupIdent(name string) (TV, bool) {
	if tv, ok := env.bound[name]; ok {
		return tv, true
	}
	if tv, ok := env.vars[name]; ok && !(env.atExit && env.fr != nil && env.fr.hasLocalNamed(name)) {
		// (in an internal clause a parameter name means the parameter variable's value at that exit; old(x) is
		// its entry value)
		return tv, true
	}
	if name == "receiver" && env.fr != nil && env.fr.fn.Signature.Recv() != nil && len(env.fr.fn.Params) > 0 {
		// the method's receiver (entry value), for bodies that shadow the receiver's name with a local
		p0 := env.fr.fn.Params[0]
		if v, ok := env.fr.regs[p0]; ok {
			return TV{v, p0.Type()}, true
		}
	}
	if env.fr != nil {
		fn := env.fr.fn
		// locals by source name (latest declaration wins: search all allocs)
		var found *ssa.Alloc
		for _, b := range fn.Blocks {
			for _, in := range b.Instrs {
				if a, ok := in.(*ssa.Alloc); ok && a.Comment == name {
					if _, have := env.fr.regs[a]; have {
						if env.atExit && env.fr.exitBlock != nil && !a.Block().Dominates(env.fr.exitBlock) && found != nil {
							continue // a shadowing declaration on another path: keep the one in scope at this exit
						}
						found = a
					}
				}
			}
		}
		if found != nil {
			et := found.Type().(*types.Pointer).Elem()
			if env.atExit && env.fr.exitBlock != nil && !found.Block().Dominates(env.fr.exitBlock) {
				// declared on another path only: the internal clause does not apply at this exit
				panic(unsetLocal(name))
			}
			if !found.Heap {
				if v, ok := env.st.locals[found]; ok {
					return TV{v, et}, true
				}
				if env.atExit {
					// not declared on the path to this exit: the internal clause does not apply there
					panic(unsetLocal(name))
				}
			} else {
				p := asPtr(env.fr.regs[found], et)
				return TV{env.vc.loadPtr(env.st, p, et), et}, true
			}
		}
		for i, fv := range fn.FreeVars {
			if fv.Name() == name && i < len(env.fr.bind) {
				et := fv.Type().(*types.Pointer).Elem()
				p := asPtr(env.fr.bind[i], et)
				return TV{env.vc.loadPtr(env.st, p, et), et}, true
			}
		}
		for _, p := range fn.Params {
			if p.Name() == name {
				if v, ok := env.fr.regs[p]; ok {
					return TV{v, p.Type()}, true
				}
			}
		}
	}
	if gv := env.vc.eng.contracts.GhostVars[name]; gv != nil {
		gty := env.resolveTypeIn(gv)
		return TV{&VS{env.vc.famGet(env.st, "G$ghost."+name, ghostSort(gty))}, gty}, true
	}
	switch name {
	case "true":
		return TV{&VS{tTrue}, boolT}, true
	case "false":
		return TV{&VS{tFalse}, boolT}, true
	case "nil":
		return TV{&VS{tNull}, types.Typ[types.UntypedNil]}, true
	}
	if env.pkg != nil {
		if obj := env.pkg.Scope().Lookup(name); obj != nil {
			if tv, ok := env.objValue(obj); ok {
				return tv, true
			}
		}
	}
	return TV{}, false
}

func (env *SpecEnv) objValue(obj types.Object) (TV, bool) {
	vc := env.vc
	switch o := obj.(type) {
	case *types.Const:
		t := o.Type()
		switch leafSort(t) {
		case SBool:
			return TV{&VS{mkBool(constant.BoolVal(o.Val()))}, t}, true
		case SInt:
			bi, _ := new(big.Int).SetString(constant.ToInt(o.Val()).ExactString(), 10)
			if bi == nil {
				bi = big.NewInt(0)
			}
			return TV{&VS{mkBig(bi)}, t}, true
		case SStr:
			return TV{&VS{vc.strLit(constant.StringVal(o.Val()))}, t}, true
		case SReal:
			// a Go float constant takes the value of its float64 rounding wherever the code uses it in a
			// non-constant expression (0.40 is 3602879701896397/2^53, not 2/5); the spec sees that same value
			fv := constant.ToFloat(o.Val())
			if f64, _ := constant.Float64Val(fv); !math.IsInf(f64, 0) && !math.IsNaN(f64) {
				fv = constant.MakeFloat64(f64)
			}
			return TV{&VS{realLit(fv)}, t}, true
		}
	case *types.Var:
		if o.Pkg() == nil {
			return TV{}, false
		}
		sp := vc.eng.prog.Package(o.Pkg())
		if sp == nil {
			return TV{}, false
		}
		g, ok := sp.Members[o.Name()].(*ssa.Global)
		if !ok {
			return TV{}, false
		}
		if t := vc.eng.sentinel(g); t != nil {
			vc.sentUse[t.Op] = true
			return TV{&VS{t}, o.Type()}, true
		}
		p := &VPtr{Kind: PGlobal, Glob: g, Root: o.Type()}
		return TV{vc.loadPtr(env.st, p, o.Type()), o.Type()}, true
	}
	return TV{}, false
}

func (env *SpecEnv) eval(e *SExpr) TV {
	vc := env.vc
	switch e.Kind {
	case SIdent:
		if tv, ok := env.lookupIdent(e.Name); ok {
			return tv
		}
		env.fail("unknown identifier %s", e.Name)
	case SIntLit:
		bi, ok := new(big.Int).SetString(e.Name, 0)
		if !ok {
			env.fail("bad integer %s", e.Name)
		}
		return TV{&VS{mkBig(bi)}, mathInt}
	case SFloatLit:
		return TV{&VS{mkReal(e.Name)}, types.Typ[types.UntypedFloat]}
	case SStrLit:
		return TV{&VS{vc.strLit(e.Name)}, types.Typ[types.String]}
	case SSel:
		return env.evalSel(e)
	case SIndex:
		x := env.eval(e.X)
		i := env.eval(e.A)
		return env.index(x, i)
	case SSlice:
		x := env.eval(e.X)
		s, ok := x.V.(*VSlice)
		if !ok {
			env.fail("slicing of non-slice")
		}
		lo := mkInt(0)
		hi := s.Len
		if e.A != nil {
			lo = env.scalar(env.eval(e.A))
		}
		if e.B != nil {
			hi = env.scalar(env.eval(e.B))
		}
		return TV{&VSlice{Base: s.Base, Off: mkAdd(s.Off, lo), Len: mkSub(hi, lo), Cap: mkSub(s.Cap, lo)}, x.T}
	case SCall:
		return env.evalCall(e)
	case SUnary:
		x := env.eval(e.X)
		t := env.scalar(x)
		if e.Op == "!" {
			return TV{&VS{mkNot(t)}, boolT}
		}
		if t.Sort == SReal {
			return TV{&VS{mkApp("-", SReal, t)}, x.T}
		}
		return TV{&VS{mkNeg(t)}, x.T}
	case SBinary:
		return env.evalBinary(e)
	case SQuant:
		return env.evalQuant(e)
	}
	env.fail("cannot evaluate %s", e.String())
	return TV{}
}

func (env *SpecEnv) evalQuant(e *SExpr) TV {
	nb := map[string]TV{}
	for k, v := range env.bound {
		nb[k] = v
	}
	sub := *env
	sub.bound = nb
	var vars []*Term
	guards := []*Term{}
	for _, v := range e.Vars {
		ty := env.resolveType(v.Type)
		*env.qn++
		name := fmt.Sprintf("%s?%d", v.Name, *env.qn)
		tm := mkVar(name, leafSort(ty))
		if _, ok := ty.Underlying().(*types.Slice); ok {
			env.fail("quantification over slices is not supported")
		}
		vars = append(vars, tm)
		nb[v.Name] = TV{&VS{tm}, ty}
		if ty != mathInt {
			guards = append(guards, rangeFact(tm, ty))
		}
	}
	saved := env.vc.noLoadFacts
	env.vc.noLoadFacts = true // loads mentioning bound variables must not leak facts outside the quantifier
	defer func() { env.vc.noLoadFacts = saved }()
	body := sub.boolOf(sub.eval(e.X))
	var pats [][]*Term
	for _, p := range e.Pats {
		var ps []*Term
		for _, x := range p {
			ps = append(ps, patternTerm(sub.scalar(sub.eval(x))))
		}
		pats = append(pats, ps)
	}
	g := mkAnd(guards...)
	if e.Op == "forall" {
		return TV{&VS{mkForall(vars, mkImplies(g, body), pats...)}, boolT}
	}
	return TV{&VS{mkExists(vars, mkAnd(g, body))}, boolT}
}

// patternTerm strips logical connectives from a trigger term (SMT patterns must be applications of
// non-logical symbols): the last non-logical sub-term is kept.
func patternTerm(t *Term) *Term {
	for t.Kind == TApp {
		switch t.Op {
		case "and", "or", "not", "=>", "=", "ite", "<", "<=", ">", ">=":
			var next *Term
			for i := len(t.Args) - 1; i >= 0; i-- {
				a := t.Args[i]
				if a.Kind == TApp {
					next = a
					break
				}
			}
			if next == nil {
				return t
			}
			t = next
			continue
		}
		break
	}
	return t
}

func (env *SpecEnv) evalBinary(e *SExpr) TV {
	vc := env.vc
	switch e.Op {
	case "&&":
		return TV{&VS{mkAnd(env.boolOf(env.eval(e.X)), env.boolOf(env.eval(e.Y)))}, boolT}
	case "||":
		return TV{&VS{mkOr(env.boolOf(env.eval(e.X)), env.boolOf(env.eval(e.Y)))}, boolT}
	case "==>":
		return TV{&VS{mkImplies(env.boolOf(env.eval(e.X)), env.boolOf(env.eval(e.Y)))}, boolT}
	case "<==>":
		return TV{&VS{mkEq(env.boolOf(env.eval(e.X)), env.boolOf(env.eval(e.Y)))}, boolT}
	case "in":
		k := env.eval(e.X)
		m := env.eval(e.Y)
		if st, ok := m.T.(*specT); ok && st.kind == "set" {
			return TV{&VS{mkSelect(env.scalar(m), env.scalar(k))}, boolT}
		}
		mt, ok := m.T.Underlying().(*types.Map)
		if !ok {
			env.fail("'in' needs a map or set")
		}
		mr := env.scalar(m)
		return TV{&VS{mkAnd(mkNeq(mr, tNull), mkSelect(vc.mapDom(env.st, mt, mr), env.scalar(k)))}, boolT}
	}
	x := env.eval(e.X)
	y := env.eval(e.Y)
	if e.Op == "==" || e.Op == "!=" {
		eq := env.equal(x, y)
		if e.Op == "!=" {
			eq = mkNot(eq)
		}
		return TV{&VS{eq}, boolT}
	}
	a, b := env.scalar(x), env.scalar(y)
	rt := x.T
	if untyped(rt) || rt == nil {
		rt = y.T
	}
	if a.Sort == SInt && b.Sort == SReal {
		a = mkApp("to_real", SReal, a)
	}
	if b.Sort == SInt && a.Sort == SReal {
		b = mkApp("to_real", SReal, b)
	}
	switch e.Op {
	case "<", "<=", ">", ">=":
		return TV{&VS{mkCmp(e.Op, a, b)}, boolT}
	case "+":
		if a.Sort == SStr {
			return TV{&VS{vc.strCat(env.st, a, b)}, rt}
		}
		if a.Sort == SReal {
			return TV{&VS{mkApp("+", SReal, a, b)}, rt}
		}
		return TV{&VS{mkAdd(a, b)}, mathInt}
	case "-":
		if a.Sort == SReal {
			return TV{&VS{mkApp("-", SReal, a, b)}, rt}
		}
		return TV{&VS{mkSub(a, b)}, mathInt}
	case "*":
		if a.Sort == SReal {
			return TV{&VS{mkApp("*", SReal, a, b)}, rt}
		}
		return TV{&VS{mkMul(a, b)}, mathInt}
	case "/":
		if a.Sort == SReal {
			return TV{&VS{mkApp("/", SReal, a, b)}, rt}
		}
		return TV{&VS{mkApp("div", SInt, a, b)}, mathInt}
	case "%":
		return TV{&VS{mkApp("mod", SInt, a, b)}, mathInt}
	}
	env.fail("operator %s", e.Op)
	return TV{}
}

func (env *SpecEnv) equal(x, y TV) *Term {
	switch xv := x.V.(type) {
	case *VSlice:
		if ys, ok := y.V.(*VSlice); ok {
			return mkAnd(mkEq(xv.Base, ys.Base), mkEq(xv.Off, ys.Off), mkEq(xv.Len, ys.Len), mkEq(xv.Cap, ys.Cap))
		}
		// comparison with nil
		return mkEq(xv.Base, tNull)
	case *VStruct:
		var xs, ys []*Term
		walkVal(x.T, "", x.V, func(l Leaf, tm *Term) { xs = append(xs, tm) })
		walkVal(x.T, "", y.V, func(l Leaf, tm *Term) { ys = append(ys, tm) })
		var eqs []*Term
		for i := range xs {
			eqs = append(eqs, mkEq(xs[i], ys[i]))
		}
		return mkAnd(eqs...)
	}
	if ys, ok := y.V.(*VSlice); ok {
		return mkEq(ys.Base, tNull)
	}
	a, b := env.scalar(x), env.scalar(y)
	if a.Sort == SInt && b.Sort == SReal {
		a = mkApp("to_real", SReal, a)
	}
	if b.Sort == SInt && a.Sort == SReal {
		b = mkApp("to_real", SReal, b)
	}
	if !a.Sort.Eq(b.Sort) {
		env.fail("comparison of %s and %s", a.Sort, b.Sort)
	}
	return mkEq(a, b)
}

func (env *SpecEnv) index(x, i TV) TV {
	vc := env.vc
	if st, ok := x.T.(*specT); ok {
		switch st.kind {
		case "arr":
			return TV{&VS{mkSelect(env.scalar(x), env.scalar(i))}, st.v}
		case "set":
			return TV{&VS{mkSelect(env.scalar(x), env.scalar(i))}, boolT}
		}
	}
	switch t := x.T.Underlying().(type) {
	case *types.Slice:
		s := x.V.(*VSlice)
		p := &VPtr{Kind: PElem, Base: s.Base, Idx: mkAdd(s.Off, env.scalar(i)), Root: t.Elem()}
		return TV{vc.loadPtr(env.st, p, t.Elem()), t.Elem()}
	case *types.Map:
		// specification-level lookup: the stored value (unspecified for absent keys; guard with `k in m`)
		m, k := env.scalar(x), env.scalar(i)
		v := buildVal(t.Elem(), "", func(l Leaf) *Term {
			_, arr := vc.mapValLeaf(env.st, t, m, l)
			return mkSelect(mkSelect(arr, m), k)
		})
		return TV{v, t.Elem()}
	case *types.Pointer:
		if at, ok := t.Elem().Underlying().(*types.Array); ok {
			p := &VPtr{Kind: PElem, Base: env.scalar(x), Idx: env.scalar(i), Root: at.Elem()}
			return TV{vc.loadPtr(env.st, p, at.Elem()), at.Elem()}
		}
	}
	env.fail("cannot index value of type %v", x.T)
	return TV{}
}

func derefType(t types.Type) (types.Type, bool) {
	if p, ok := t.Underlying().(*types.Pointer); ok {
		return p.Elem(), true
	}
	return t, false
}

func (env *SpecEnv) evalSel(e *SExpr) TV {
	vc := env.vc
	// package-qualified
	if e.X.Kind == SIdent {
		if _, ok := env.lookupIdent(e.X.Name); !ok {
			if p := env.lookupPkg(e.X.Name); p != nil {
				obj := p.Scope().Lookup(e.Name)
				if obj == nil {
					env.fail("unknown %s.%s", e.X.Name, e.Name)
				}
				if tv, ok := env.objValue(obj); ok {
					return tv
				}
				env.fail("cannot use %s.%s as a value", e.X.Name, e.Name)
			}
		}
	}
	x := env.eval(e.X)
	return vc.selectField(env, x, e.Name)
}

func (vc *VC) selectField(env *SpecEnv, x TV, name string) TV {
	// tuple element
	if vt, ok := x.V.(*VTuple); ok {
		var idx int
		if _, err := fmt.Sscanf(name, "%d", &idx); err == nil && idx < len(vt.E) {
			tt := x.T.(*types.Tuple)
			return TV{vt.E[idx], tt.At(idx).Type()}
		}
		env.fail("bad tuple selector .%s", name)
	}
	if _, isIface := x.T.Underlying().(*types.Interface); isIface {
		// ghost (abstract state) field declared on the interface type itself
		if gf := vc.eng.ghostField(x.T, name); gf != nil {
			gty := env.resolveTypeIn(gf)
			p := &VPtr{Kind: PCell, Base: env.scalar(x), Root: x.T}
			return TV{vc.loadGhost(env.st, p, x.T, name, gty), gty}
		}
		// interface value with a declared (devirt) implementation: select through the implementation type
		if impl := vc.eng.devirt[typeKey(x.T)]; impl != nil {
			x = TV{x.V, impl}
		}
	}
	bt, isPtr := derefType(x.T)
	st, ok := isStruct(bt)
	if !ok {
		// ghost field on non-struct pointer target?
		env.fail("selector .%s on non-struct type %v", name, x.T)
	}
	// real field (including promoted through embedded structs, one level search)
	path, ft := findField(st, name)
	if path == nil {
		// ghost field
		if gt := vc.eng.ghostField(bt, name); gt != nil {
			gty := env.resolveTypeIn(gt)
			var p *VPtr
			if isPtr {
				p = asPtr(x.V, bt)
			} else {
				env.fail("ghost field on struct value")
			}
			return TV{vc.loadGhost(env.st, p, bt, name, gty), gty}
		}
		// ghost field promoted through a struct embedded by value (x.RWMutex.wheld written as x.wheld)
		if isPtr {
			for i := 0; i < st.NumFields(); i++ {
				f := st.Field(i)
				if !f.Embedded() {
					continue
				}
				if _, ok := isStruct(f.Type()); !ok {
					continue
				}
				if gt := vc.eng.ghostField(f.Type(), name); gt != nil {
					gty := env.resolveTypeIn(gt)
					p := asPtr(x.V, bt).extend(i)
					return TV{vc.loadGhost(env.st, p, f.Type(), name, gty), gty}
				}
			}
		}
		env.fail("type %v has no field %s", bt, name)
	}
	if isPtr {
		p := asPtr(x.V, bt)
		cur := p
		curT := bt
		for n, i := range path {
			s, _ := isStruct(curT)
			f := s.Field(i)
			if n < len(path)-1 {
				// embedded: may be pointer
				if pt, ok := f.Type().Underlying().(*types.Pointer); ok {
					v := vc.loadPtr(env.st, cur.extend(i), f.Type())
					cur = asPtr(v, pt.Elem())
					curT = pt.Elem()
					continue
				}
			}
			cur = cur.extend(i)
			curT = f.Type()
		}
		return TV{vc.loadPtr(env.st, cur, ft), ft}
	}
	v := x.V
	curT := bt
	for _, i := range path {
		s, _ := isStruct(curT)
		v = v.(*VStruct).F[i]
		curT = s.Field(i).Type()
		if pt, ok := curT.Underlying().(*types.Pointer); ok && i != path[len(path)-1] {
			_ = pt
			env.fail("embedded pointer in struct value")
		}
	}
	return TV{v, ft}
}

func findField(st *types.Struct, name string) ([]int, types.Type) {
	for i := 0; i < st.NumFields(); i++ {
		if st.Field(i).Name() == name {
			return []int{i}, st.Field(i).Type()
		}
	}
	for i := 0; i < st.NumFields(); i++ {
		f := st.Field(i)
		if !f.Embedded() {
			continue
		}
		et := f.Type()
		if p, ok := et.Underlying().(*types.Pointer); ok {
			et = p.Elem()
		}
		if es, ok := isStruct(et); ok {
			if p, t := findField(es, name); p != nil {
				return append([]int{i}, p...), t
			}
		}
	}
	return nil, nil
}

func (env *SpecEnv) resolveTypeIn(g *GhostField) types.Type {
	sub := *env
	pp := g.PkgPath
	if g.DeclPkg != "" {
		pp = g.DeclPkg
	}
	sub.pkg = env.vc.eng.typesPkg(pp)
	sub.imports = env.vc.eng.importsOf(sub.pkg)
	if im, ok := env.vc.eng.contracts.Imports[g.File]; ok && sub.pkg == nil {
		sub.imports = im
	}
	return sub.resolveType(g.Type)
}

// ghost fields live in families F$T.$name (or below the path of an interior pointer)
func (vc *VC) ghostLoc(p *VPtr, bt types.Type, name string) (string, *Term) {
	_, sub := subPath(p.Root, p.Path)
	switch p.Kind {
	case PField:
		return "F$" + typeKey(p.Root) + sub + ".$" + name, p.Base
	case PCell:
		return "F$" + typeKey(bt) + ".$" + name, p.Base
	}
	panic(unsupported("ghost field through " + ptrString(p)))
}

func ghostSort(t types.Type) *Sort {
	if st, ok := t.(*specT); ok {
		switch st.kind {
		case "set":
			return SArr(leafSort(st.k), SBool)
		case "arr":
			return SArr(SInt, leafSort(st.v))
		}
	}
	if mt, ok := t.Underlying().(*types.Map); ok {
		return SArr(leafSort(mt.Key()), leafSort(mt.Elem()))
	}
	return leafSort(t)
}

func (vc *VC) loadGhost(st *State, p *VPtr, bt types.Type, name string, gty types.Type) Val {
	key, base := vc.ghostLoc(p, bt, name)
	s := ghostSort(gty)
	arr := vc.famGet(st, key, SArr(SRef, s))
	return &VS{mkSelect(arr, base)}
}

func (vc *VC) storeGhost(st *State, p *VPtr, bt types.Type, name string, gty types.Type, v *Term) {
	key, base := vc.ghostLoc(p, bt, name)
	s := ghostSort(gty)
	arr := vc.famGet(st, key, SArr(SRef, s))
	restore := vc.withTouch(base)
	vc.famSet(st, key, mkStore(arr, base, v))
	restore()
}

func (env *SpecEnv) evalCall(e *SExpr) TV {
	vc := env.vc
	// builtin spec functions
	if e.X.Kind == SIdent {
		name := e.X.Name
		switch name {
		case "old":
			if env.old == nil {
				env.fail("old() not available here")
			}
			sub := env.with(env.old)
			sub.atExit = false // entry state: parameter names mean their entry values, no locals exist yet
			return sub.eval(e.Args[0])
		case "pre":
			// pre(x.f): x evaluated in the current state, field f read in the old state
			if env.old == nil {
				env.fail("pre() not available here")
			}
			if e.Args[0].Kind != SSel {
				env.fail("pre() needs a selector x.f")
			}
			x := env.eval(e.Args[0].X)
			return vc.selectField(env.with(env.old), x, e.Args[0].Name)
		case "len":
			x := env.eval(e.Args[0])
			switch v := x.V.(type) {
			case *VSlice:
				return TV{&VS{v.Len}, mathInt}
			case *VS:
				if v.T.Sort == SStr {
					return TV{&VS{vc.strlen(v.T)}, mathInt}
				}
				if mt, ok := x.T.Underlying().(*types.Map); ok {
					return TV{&VS{mkIte(mkEq(v.T, tNull), mkInt(0), vc.mapLen(env.st, mt, v.T))}, mathInt}
				}
			}
			env.fail("len of %v", x.T)
		case "cap":
			x := env.eval(e.Args[0])
			if v, ok := x.V.(*VSlice); ok {
				return TV{&VS{v.Cap}, mathInt}
			}
			env.fail("cap of %v", x.T)
		case "ite", "cond":
			c := env.boolOf(env.eval(e.Args[0]))
			a := env.eval(e.Args[1])
			b := env.eval(e.Args[2])
			at, bt := env.scalar(a), env.scalar(b)
			return TV{&VS{mkIte(c, at, bt)}, a.T}
		case "fresh":
			// allocated during the call: not allocated in the old state
			x := env.eval(e.Args[0])
			var r *Term
			if s, ok := x.V.(*VSlice); ok {
				r = s.Base
			} else {
				r = env.scalar(x)
			}
			if env.old == nil {
				env.fail("fresh() needs an old state")
			}
			return TV{&VS{mkAnd(mkNeq(r, tNull), mkNot(vc.allocatedIn(env.old, r)))}, boolT}
		case "onlyfresh":
			// onlyfresh(except...): in every heap family that differs from the old state (except the listed
			// targets), objects that existed in the old state are unchanged - only objects allocated since are
			// written. Meant for loop invariants of loops that build and drop temporaries.
			if env.old == nil {
				env.fail("onlyfresh() needs an old state")
			}
			except := map[string]bool{}
			exceptAt := map[string][]*Term{}
			for _, t := range env.modTargets(e.Args) {
				if t.idx == nil {
					except[t.key] = true
				} else {
					exceptAt[t.key] = append(exceptAt[t.key], t.idx)
				}
			}
			var cs []*Term
			r := mkVar("of!", SRef)
			for _, k := range sortedKeys(env.st.heap) {
				if strings.HasPrefix(k, "$") || strings.HasPrefix(k, "P$") || except[k] {
					continue
				}
				if ixs := exceptAt[k]; len(ixs) > 0 {
					// excepted at single objects only: every OTHER old object of the family is unchanged
					srt := vc.famSort[k]
					if srt == nil || srt.Name != "Array" || srt.K != SRef {
						continue
					}
					cur := env.st.heap[k]
					init := env.old.heap[k]
					if init == nil {
						init = mkVar("H$"+k, srt)
					}
					if termEq(cur, init) {
						continue
					}
					guard := []*Term{vc.allocatedIn(env.old, r)}
					for _, ix := range ixs {
						guard = append(guard, mkNeq(r, ix))
					}
					cs = append(cs, mkForall([]*Term{r}, mkImplies(mkAnd(guard...), mkEq(mkSelect(cur, r), mkSelect(init, r))), []*Term{mkSelect(cur, r)}))
					continue
				}
				srt := vc.famSort[k]
				if srt == nil || srt.Name != "Array" || srt.K != SRef {
					continue
				}
				cur := env.st.heap[k]
				init := env.old.heap[k]
				if init == nil {
					init = mkVar("H$"+k, srt)
				}
				if termEq(cur, init) {
					continue
				}
				cs = append(cs, mkForall([]*Term{r}, mkImplies(vc.allocatedIn(env.old, r), mkEq(mkSelect(cur, r), mkSelect(init, r))), []*Term{mkSelect(cur, r)}))
			}
			return TV{&VS{mkAnd(cs...)}, boolT}
		case "allocated":
			x := env.eval(e.Args[0])
			var r *Term
			if s, ok := x.V.(*VSlice); ok {
				r = s.Base
			} else {
				r = env.scalar(x)
			}
			return TV{&VS{vc.allocatedIn(env.st, r)}, boolT}
		case "base":
			x := env.eval(e.Args[0])
			if s, ok := x.V.(*VSlice); ok {
				return TV{&VS{s.Base}, types.Typ[types.UnsafePointer]}
			}
			env.fail("base() of non-slice")
		case "off":
			x := env.eval(e.Args[0])
			if s, ok := x.V.(*VSlice); ok {
				return TV{&VS{s.Off}, mathInt}
			}
			env.fail("off() of non-slice")
		case "elems":
			// content array of a slice's backing store (absolute indices)
			x := env.eval(e.Args[0])
			s, ok := x.V.(*VSlice)
			if !ok {
				env.fail("elems() of non-slice")
			}
			et := x.T.Underlying().(*types.Slice).Elem()
			if len(leaves(et)) != 1 {
				env.fail("elems() of composite element type")
			}
			l := leaves(et)[0]
			arr := vc.famGet(env.st, "E$"+typeKey(et)+l.Path, SArr(SRef, SArr(SInt, l.Sort)))
			return TV{&VS{mkSelect(arr, s.Base)}, &specT{kind: "arr", v: et}}
		case "dom":
			x := env.eval(e.Args[0])
			mt, ok := x.T.Underlying().(*types.Map)
			if !ok {
				env.fail("dom() of non-map")
			}
			return TV{&VS{vc.mapDom(env.st, mt, env.scalar(x))}, &specT{kind: "set", k: mt.Key()}}
		case "be64", "be32", "be16":
			x := env.eval(e.Args[0])
			i := env.scalar(env.eval(e.Args[1]))
			n := map[string]int{"be64": 8, "be32": 4, "be16": 2}[name]
			var arr, off *Term
			if s, ok := x.V.(*VSlice); ok {
				arr = vc.bytesArr(env.st, s.Base)
				off = mkAdd(s.Off, i)
			} else {
				arr = env.scalar(x)
				off = i
			}
			return TV{&VS{packBytes(arr, off, n)}, map[int]types.Type{8: types.Typ[types.Uint64], 4: types.Typ[types.Uint32], 2: types.Typ[types.Uint16]}[n]}
		case "bstr":
			x := env.eval(e.Args[0])
			s, ok := x.V.(*VSlice)
			if !ok {
				env.fail("bstr() of non-slice")
			}
			return TV{&VS{mkApp("bstr", SStr, vc.bytesArr(env.st, s.Base), s.Off, s.Len)}, types.Typ[types.String]}
		case "bstrAt":
			// bstrAt(arr, off, len)
			arr := env.scalar(env.eval(e.Args[0]))
			return TV{&VS{mkApp("bstr", SStr, arr, env.scalar(env.eval(e.Args[1])), env.scalar(env.eval(e.Args[2])))}, types.Typ[types.String]}
		case "visited":
			// visited(k): key k has already been produced by the map range iterator of this function
			var key string
			n := 0
			for k := range env.st.heap {
				if strings.HasPrefix(k, "$visited!") {
					key = k
					n++
				}
			}
			if n != 1 {
				env.fail("visited() needs exactly one active map range (found %d)", n)
			}
			return TV{&VS{mkSelect(env.st.heap[key], env.scalar(env.eval(e.Args[0])))}, boolT}
		case "strlen":
			return TV{&VS{vc.strlen(env.scalar(env.eval(e.Args[0])))}, mathInt}
		case "strbytes":
			return TV{&VS{mkApp("strbytes", SArr(SInt, SInt), env.scalar(env.eval(e.Args[0])))}, &specT{kind: "arr", v: types.Typ[types.Uint8]}}
		case "update":
			a := env.eval(e.Args[0])
			return TV{&VS{mkStore(env.scalar(a), env.scalar(env.eval(e.Args[1])), env.scalar(env.eval(e.Args[2])))}, a.T}
		case "setAdd":
			a := env.eval(e.Args[0])
			return TV{&VS{mkStore(env.scalar(a), env.scalar(env.eval(e.Args[1])), tTrue)}, a.T}
		case "setRemove":
			a := env.eval(e.Args[0])
			return TV{&VS{mkStore(env.scalar(a), env.scalar(env.eval(e.Args[1])), tFalse)}, a.T}
		case "emptySet":
			// emptySet(T-typed example value) is not needed: the element sort is taken from the expected use
			kt := types.Type(types.Typ[types.Uint64])
			return TV{&VS{mkConstArr(SArr(leafSort(kt), SBool), tFalse)}, &specT{kind: "set", k: kt}}
		case "now":
			return TV{&VS{vc.nowOf(env.st)}, mathInt}
		case "errIs":
			a := env.scalar(env.eval(e.Args[0]))
			b := env.scalar(env.eval(e.Args[1]))
			return TV{&VS{vc.errorsIs(a, b)}, boolT}
		case "dyntype":
			return TV{&VS{mkApp("dyntype", SInt, env.scalar(env.eval(e.Args[0])))}, mathInt}
		case "hasptrtype":
			// hasptrtype(x, T) / hasptrtype(x, pkg.T): the interface value x holds a *T
			var st SType
			switch a := e.Args[1]; a.Kind {
			case SIdent:
				st = SType{Name: a.Name}
			case SSel:
				st = SType{Pkg: a.X.Name, Name: a.Name}
			default:
				env.fail("hasptrtype(x, T): T must be a type name")
			}
			pt := types.NewPointer(env.resolveType(&st))
			vc.eng.typeTags[typeKey(pt)] = true
			return TV{&VS{mkEq(mkApp("dyntype", SInt, env.scalar(env.eval(e.Args[0]))), vc.typeTag(pt))}, boolT}
		case "uf":
			// uf("name", Sort-as-string, args...)
			nm := e.Args[0].Name
			srt := map[string]*Sort{"Int": SInt, "Bool": SBool, "Ref": SRef, "Str": SStr, "Real": SReal}[e.Args[1].Name]
			if srt == nil {
				env.fail("uf: unknown sort %s", e.Args[1].Name)
			}
			var as []*Term
			for _, a := range e.Args[2:] {
				tv := env.eval(a)
				if s, ok := tv.V.(*VSlice); ok {
					as = append(as, s.Base, s.Off, s.Len)
				} else if p, ok := tv.V.(*VPtr); ok && (p.Kind == PField || p.Kind == PCell) {
					as = append(as, p.Base) // address of an embedded struct: the enclosing object
				} else {
					as = append(as, env.scalar(tv))
				}
			}
			rt := map[*Sort]types.Type{SInt: mathInt, SBool: boolT, SRef: types.Typ[types.UnsafePointer], SStr: types.Typ[types.String], SReal: types.Typ[types.Float64]}[srt]
			if len(as) == 0 {
				return TV{&VS{mkVar("uf$"+nm, srt)}, rt}
			}
			return TV{&VS{mkApp("uf$"+nm, srt, as...)}, rt}
		}
		// conversion to a basic type
		if obj := types.Universe.Lookup(name); obj != nil {
			if tn, ok := obj.(*types.TypeName); ok && len(e.Args) == 1 {
				x := env.eval(e.Args[0])
				if s, ok := x.V.(*VSlice); ok && leafSort(tn.Type()) == SStr {
					return TV{&VS{mkApp("bstr", SStr, vc.bytesArr(env.st, s.Base), s.Off, s.Len)}, tn.Type()}
				}
				t := env.scalar(x)
				if t.Sort == SInt && leafSort(tn.Type()) == SInt {
					if x.T != nil && !untyped(x.T) {
						if _, _, ok := intRange(x.T); ok {
							return TV{&VS{convInt(t, x.T, tn.Type())}, tn.Type()}
						}
					}
					return TV{&VS{wrapTo(t, tn.Type())}, tn.Type()}
				}
				if t.Sort == SInt && leafSort(tn.Type()) == SReal {
					return TV{&VS{mkApp("to_real", SReal, t)}, tn.Type()}
				}
				if t.Sort == SReal && leafSort(tn.Type()) == SInt {
					// same model as the executable conversion: truncation toward zero of the real, then wrap
					trunc := mkIte(mkCmp(">=", t, mkReal("0.0")), mkApp("to_int", SInt, t), mkNeg(mkApp("to_int", SInt, mkApp("-", SReal, t))))
					return TV{&VS{wrapTo(trunc, tn.Type())}, tn.Type()}
				}
				return TV{&VS{t}, tn.Type()}
			}
		}
		// pure function of this package
		if pf := vc.eng.contracts.Pures[pureKey(env.pkgPath(), "", name)]; pf != nil {
			return env.callPure(pf, nil, e.Args)
		}
		// real Go function in this package
		if env.pkg != nil {
			if sp := vc.eng.prog.Package(env.pkg); sp != nil {
				if fn := sp.Func(name); fn != nil {
					return env.callGo(fn, nil, e.Args)
				}
			}
		}
		env.fail("unknown spec function %s", name)
	}
	if e.X.Kind == SSel {
		// pkg.Func(...)
		if e.X.X.Kind == SIdent {
			if _, ok := env.lookupIdent(e.X.X.Name); !ok {
				if p := env.lookupPkg(e.X.X.Name); p != nil {
					if pf := vc.eng.contracts.Pures[pureKey(p.Path(), "", e.X.Name)]; pf != nil {
						return env.callPure(pf, nil, e.Args)
					}
					if sp := vc.eng.prog.Package(p); sp != nil {
						if fn := sp.Func(e.X.Name); fn != nil {
							return env.callGo(fn, nil, e.Args)
						}
					}
					// type conversion pkg.Type(x)
					if tn, ok := p.Scope().Lookup(e.X.Name).(*types.TypeName); ok && len(e.Args) == 1 {
						x := env.eval(e.Args[0])
						return TV{x.V, tn.Type()}
					}
					env.fail("unknown function %s.%s", e.X.X.Name, e.X.Name)
				}
			}
		}
		// method call
		recv := env.eval(e.X.X)
		bt, _ := derefType(recv.T)
		if n, ok := bt.(*types.Named); ok && n.Obj().Pkg() != nil {
			if pf := vc.eng.contracts.Pures[pureKey(n.Obj().Pkg().Path(), n.Obj().Name(), e.X.Name)]; pf != nil {
				return env.callPure(pf, &recv, e.Args)
			}
		}
		// real method
		ms := vc.eng.prog.MethodSets.MethodSet(recv.T)
		if sel := ms.Lookup(env.pkg, e.X.Name); sel != nil {
			if fn := vc.eng.prog.MethodValue(sel); fn != nil {
				return env.callGo(fn, &recv, e.Args)
			}
		}
		// interface method via devirt
		if _, ok := recv.T.Underlying().(*types.Interface); ok {
			if impl := vc.eng.devirt[typeKey(recv.T)]; impl != nil {
				ms := vc.eng.prog.MethodSets.MethodSet(impl)
				for i := 0; i < ms.Len(); i++ {
					if ms.At(i).Obj().Name() == e.X.Name {
						fn := vc.eng.prog.MethodValue(ms.At(i))
						r2 := TV{recv.V, impl}
						if n := namedOf(impl); n != nil {
							if pf := vc.eng.contracts.Pures[pureKey(n.Obj().Pkg().Path(), n.Obj().Name(), e.X.Name)]; pf != nil {
								return env.callPure(pf, &r2, e.Args)
							}
						}
						return env.callGo(fn, &r2, e.Args)
					}
				}
			}
		}
		env.fail("unknown method %s on %v", e.X.Name, recv.T)
	}
	env.fail("cannot call %s", e.X.String())
	return TV{}
}

func (env *SpecEnv) pkgPath() string {
	if env.pkg == nil {
		return ""
	}
	return env.pkg.Path()
}

func (env *SpecEnv) callPure(pf *PureFunc, recv *TV, args []*SExpr) TV {
	vc := env.vc
	if env.depth > 12 {
		env.fail("pure function recursion too deep (%s)", pf.Name)
	}
	if len(args) != len(pf.Params) {
		env.fail("pure function %s: expected %d arguments, got %d", pf.Name, len(pf.Params), len(args))
	}
	sub := vc.newEnv(vc.eng.typesPkg(pf.PkgPath), env.st, env.old)
	sub.qn = env.qn
	sub.depth = env.depth + 1
	for k, v := range env.bound {
		_ = k
		_ = v
	}
	if recv != nil {
		sub.vars[pf.RecvName] = *recv
	}
	for i, p := range pf.Params {
		a := env.eval(args[i])
		pt := sub.resolveType(p.Type)
		if untyped(a.T) {
			a.T = pt
		}
		sub.vars[p.Name] = TV{a.V, pt}
	}
	rt := sub.resolveType(pf.Result)
	if pf.Opaque && vc.root != nil && fnPkgPath(vc.root) != pf.PkgPath {
		// abstract use outside the declaring package: a ghost, heap-dependent function stored per receiver
		// (family P$pkg.T.name : Ref -> params -> result); its frame is maintained by framePreds at every
		// heap change (unchanged for receivers whose declared reads footprint is disjoint from the change)
		if recv == nil {
			env.fail("opaque function %s needs a receiver", pf.Name)
		}
		key, srt := vc.predFamily(pf, sub)
		if vc.usedPreds != nil {
			vc.usedPreds[key] = true
		}
		t := mkSelect(vc.famGet(env.st, key, srt), env.scalar(*recv))
		for _, p := range pf.Params {
			t = mkSelect(t, sub.scalar(sub.vars[p.Name]))
		}
		vc.note("opaque function used abstractly (ghost heap-dependent function with frame axioms over its reads clause): " + shortPkg(pf.PkgPath) + "." + recvTypeName(pf.RecvType) + "." + pf.Name)
		return TV{&VS{t}, rt}
	}
	if pf.Body == nil {
		// uninterpreted function of its scalar arguments
		var as []*Term
		if recv != nil {
			as = append(as, env.scalar(*recv))
		}
		for _, p := range pf.Params {
			tv := sub.vars[p.Name]
			if s, ok := tv.V.(*VSlice); ok {
				as = append(as, s.Base, s.Off, s.Len)
			} else {
				as = append(as, sub.scalar(tv))
			}
		}
		name := "spec$" + shortPkg(pf.PkgPath) + "." + recvTypeName(pf.RecvType) + "." + pf.Name
		if len(as) == 0 {
			return TV{&VS{mkVar(name, leafSort(rt))}, rt}
		}
		return TV{&VS{mkApp(name, leafSort(rt), as...)}, rt}
	}
	r := sub.eval(pf.Body)
	if untyped(r.T) || r.T == nil {
		r.T = rt
	}
	if _, ok := r.T.(*specT); !ok {
		r.T = rt
	}
	return r
}

// callGo evaluates a real (side-effect free) Go function symbolically on a scratch copy of the state.
func (env *SpecEnv) callGo(fn *ssa.Function, recv *TV, args []*SExpr) TV {
	vc := env.vc
	if len(fn.Blocks) == 0 {
		env.fail("function %s has no body", fn.String())
	}
	if env.depth > 6 {
		env.fail("spec call depth exceeded")
	}
	if len(env.bound) > 0 {
		env.fail("call of Go function %s under a quantifier is not supported (use fields or pure spec functions)", fn.Name())
	}
	var vals []Val
	if recv != nil {
		vals = append(vals, recv.V)
	}
	for _, a := range args {
		vals = append(vals, env.eval(a).V)
	}
	scratch := env.st.clone()
	scratch.reach = tTrue
	nob := len(vc.obligs)
	nas := len(vc.assumes)
	res := vc.execFunc(fn, vals, nil, scratch, 6, "spec.", false)
	vc.obligs = vc.obligs[:nob]
	_ = nas
	if res == nil || len(res.results) != 1 {
		env.fail("spec call of %s did not produce a single result", fn.String())
	}
	return TV{res.results[0], fn.Signature.Results().At(0).Type()}
}

func packBytes(arr, off *Term, n int) *Term {
	var as []*Term
	for k := 0; k < n; k++ {
		as = append(as, mkSelect(arr, mkAdd(off, mkInt(int64(k)))))
	}
	return mkApp(fmt.Sprintf("pack%d", n), SInt, as...)
}

const nowKey = "$now"

// nowOf: the latest instant read from the clock in state st (nanoseconds; symbolic, positive, monotone).
func (vc *VC) nowOf(st *State) *Term {
	if t, ok := st.heap[nowKey]; ok {
		return t
	}
	vc.famSort[nowKey] = SInt
	return mkVar("H$"+nowKey, SInt)
}

// advanceClock: the callee reads the clock: the new current instant is some instant not before the old one.
func (vc *VC) advanceClock(st *State) {
	old := vc.nowOf(st)
	t := vc.fresh("now", SInt)
	vc.assume(st, mkAnd(mkCmp(">=", t, old), mkCmp(">", t, mkInt(0)), mkCmp("<=", t, mkBig(pow2(62)))))
	st.heap[nowKey] = t
	vc.famSort[nowKey] = SInt
}

func (vc *VC) errorsIs(err, target *Term) *Term {
	return mkOr(mkEq(err, target), mkAnd(mkNeq(err, tNull), mkApp("wraps", SBool, err, target)))
}

func sanitize(s string) string {
	return strings.Map(func(r rune) rune {
		if r >= 'a' && r <= 'z' || r >= 'A' && r <= 'Z' || r >= '0' && r <= '9' || r == '_' || r == '.' {
			return r
		}
		return '_'
	}, s)
}
