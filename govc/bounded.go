package main

// Bounded stand-ins. A function whose contract is `trusted` (assumed by its callers, not proved) may be given a
// bounded check of that contract on the real code: a test file kept under /verif/bounded is injected into the
// function's package with `go test -overlay` (nothing is written to /repo) and evaluates the contract's clauses on
// real pre/post states. The result is reported in the evidence under `bounded_stand_ins`, labelled bounded, and is
// never counted among the discharged obligations. A failing run is a violation with a concrete failing input.

import (
	"encoding/json"
	"fmt"
	"os"
	"os/exec"
	"path/filepath"
	"strings"
	"time"
)

type BoundedSpec struct {
	Name     string            `json:"name"`
	Function string            `json:"function"`
	Props    []string          `json:"props"`
	Pkg      string            `json:"pkg"`
	File     string            `json:"file"`
	Run      string            `json:"run"`
	Bound    string            `json:"bound"`
	Quick    map[string]string `json:"quick"`
	Thorough map[string]string `json:"thorough"`
}

type BoundedResult struct {
	Name     string  `json:"name"`
	Function string  `json:"stands_in_for_trusted_contract_of"`
	Bound    string  `json:"bound"`
	Label    string  `json:"label"`
	Passed   bool    `json:"passed"`
	Summary  string  `json:"summary"`
	Sample   string  `json:"sample"`
	Failure  string  `json:"failure,omitempty"`
	WallS    float64 `json:"wall_s"`
	output   string
}

func (r *Run) runBounded() {
	data, err := os.ReadFile(filepath.Join(r.verif, "specs", "bounded.json"))
	if err != nil {
		return
	}
	var specs []BoundedSpec
	if err := json.Unmarshal(data, &specs); err != nil {
		r.addSynthetic("bounded#spec", "binding", "specs/bounded.json parses", err.Error())
		return
	}
	for _, s := range specs {
		if !containsStr(s.Props, r.prop) {
			continue
		}
		t0 := time.Now()
		env := s.Quick
		if r.tier == "thorough" {
			env = s.Thorough
		}
		bound := s.Bound
		for k, v := range env {
			bound = strings.ReplaceAll(bound, "$"+k, v)
		}
		res := BoundedResult{Name: s.Name, Function: s.Function, Bound: bound, Label: "bounded (NOT proof; never counted as discharged)"}
		src, err := os.ReadFile(filepath.Join(r.verif, s.File))
		if err != nil {
			res.Failure = "cannot read " + s.File + ": " + err.Error()
			r.bounded = append(r.bounded, res)
			continue
		}
		out, ok := runBoundedTest(r.e.repoDir, s.Pkg, "zz_verif_bounded_"+sanitize(s.Name)+"_test.go", string(src), s.Run, env)
		res.output = out
		res.WallS = round3(time.Since(t0).Seconds())
		for _, ln := range strings.Split(out, "\n") {
			switch {
			case strings.HasPrefix(ln, "BOUNDED-OK "):
				res.Summary = strings.TrimPrefix(ln, "BOUNDED-OK ")
			case strings.HasPrefix(ln, "BOUNDED-SAMPLE "):
				res.Sample = strings.TrimPrefix(ln, "BOUNDED-SAMPLE ")
			case strings.HasPrefix(ln, "BOUNDED-FAIL "):
				res.Failure = strings.TrimPrefix(ln, "BOUNDED-FAIL ")
			}
		}
		res.Passed = ok && res.Failure == "" && res.Summary != "" && strings.Contains(out, "\nok  \t")
		if !res.Passed && res.Failure == "" {
			res.Failure = "the bounded check did not complete: " + tail(out, 600)
		}
		r.bounded = append(r.bounded, res)
		r.notes[fmt.Sprintf("contract clauses of %s that are not discharged (`trusted` contract or `trusts` clauses, assumed footprint) are trusted by the proof; a BOUNDED check of all its clauses on the real code stands in (%s) and is not counted as proved", s.Function, bound)] = true
	}
}

func runBoundedTest(repoDir, pkgDir, fileName, src, runPat string, env map[string]string) (string, bool) {
	dir, err := os.MkdirTemp("", "govc-bounded-")
	if err != nil {
		return err.Error(), false
	}
	defer os.RemoveAll(dir)
	tf := filepath.Join(dir, fileName)
	if err := os.WriteFile(tf, []byte(src), 0o644); err != nil {
		return err.Error(), false
	}
	ov := map[string]map[string]string{"Replace": {filepath.Join(repoDir, pkgDir, fileName): tf}}
	data, _ := json.Marshal(ov)
	ovf := filepath.Join(dir, "ov.json")
	os.WriteFile(ovf, data, 0o644)
	cmd := exec.Command("go", "test", "-overlay", ovf, "-vet=off", "-v", "-count=1", "-timeout", "600s", "-run", "^"+runPat+"$", "./"+pkgDir)
	cmd.Dir = repoDir
	cmd.Env = append(os.Environ(), "GOFLAGS=-mod=mod", "GOPROXY=off", "GOSUMDB=off", "GOTOOLCHAIN=local")
	for k, v := range env {
		cmd.Env = append(cmd.Env, k+"="+v)
	}
	done := make(chan struct{})
	var out []byte
	go func() {
		out, err = cmd.CombinedOutput()
		close(done)
	}()
	select {
	case <-done:
	case <-time.After(660 * time.Second):
		if cmd.Process != nil {
			cmd.Process.Kill()
		}
		return "bounded check timed out", false
	}
	return string(out), err == nil
}
