package main

import (
	"go/types"
	"strings"

	"golang.org/x/tools/go/ssa"
)

// funcFieldExists: key has the form "(pkgpath.T).f" and T is a struct with a func-typed field f.
func (e *Engine) funcFieldExists(key string) bool {
	if !strings.HasPrefix(key, "(") {
		return false
	}
	i := strings.Index(key, ").")
	if i < 0 {
		return false
	}
	tn, f := strings.TrimPrefix(key[1:i], "*"), key[i+2:]
	k := strings.LastIndex(tn, ".")
	if k < 0 {
		return false
	}
	tp := e.typesPkg(tn[:k])
	if tp == nil {
		return false
	}
	obj := tp.Scope().Lookup(tn[k+1:])
	if obj == nil {
		return false
	}
	st, ok := obj.Type().Underlying().(*types.Struct)
	if !ok {
		return false
	}
	for j := 0; j < st.NumFields(); j++ {
		if st.Field(j).Name() == f {
			_, isFn := st.Field(j).Type().Underlying().(*types.Signature)
			return isFn
		}
	}
	return false
}

// hasLocalNamed: the function keeps a variable of that source name in a local cell (always true for parameters
// in go/ssa's naive form), and the cell has been allocated on the path executed so far.
func (fr *Frame) hasLocalNamed(name string) bool {
	for _, b := range fr.fn.Blocks {
		for _, in := range b.Instrs {
			if a, ok := in.(*ssa.Alloc); ok && a.Comment == name {
				if _, have := fr.regs[a]; have {
					return true
				}
			}
		}
	}
	return false
}
