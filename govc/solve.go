package main

// SMT-LIB script generation and solver racing.

import (
	"bytes"
	"context"
	"fmt"
	"go/types"
	"math/big"
	"os"
	"os/exec"
	"path/filepath"
	"sort"
	"strings"
	"sync"
	"time"
)

func hasQuant(t *Term) bool {
	if t.Kind == TQuant {
		return true
	}
	for _, a := range t.Args {
		if hasQuant(a) {
			return true
		}
	}
	return false
}

// qfScript: the obligation with every quantified assumption dropped (a weakening used only to search for
// candidate counterexamples; a model of it is confirmed only by replay on the real code).
func (o *Oblig) qfScript() string {
	vc := o.vc
	var body []*Term
	for _, a := range vc.assumes[:o.NAssume] {
		if !hasQuant(a) {
			body = append(body, a)
		}
	}
	s := buildScript(vc, body, mkAnd(o.Reach, mkNot(o.Goal)), true)
	var out []string
	for _, l := range strings.Split(s, "\n") {
		if strings.HasPrefix(l, "(assert (forall") {
			continue
		}
		out = append(out, l)
	}
	return strings.Join(out, "\n")
}

// coverQF: satisfiability of the quantifier-free part of the assumptions (fast vacuity check).
func (o *Oblig) coverQF() string {
	vc := o.vc
	var body []*Term
	for _, a := range vc.assumes[:o.NAssume] {
		if !hasQuant(a) {
			body = append(body, a)
		}
	}
	s := buildScript(vc, body, tTrue, false)
	var out []string
	for _, l := range strings.Split(s, "\n") {
		if strings.HasPrefix(l, "(assert (forall") {
			continue
		}
		out = append(out, l)
	}
	return strings.Join(out, "\n")
}

// slimScript: the obligation with the bulky hypotheses left out — quantified conjuncts of the function's own
// preconditions, of loop invariants assumed at loop heads and of earlier postconditions used as lemmas. Dropping
// hypotheses is sound for `unsat`; many obligations follow from callee postconditions and definitions alone, and the
// small query is decided instantly where the full one makes the solver wander. Returns "" when nothing is dropped.
func (o *Oblig) slimScript() string { return o.sliceScript("RILV", 6) }

// usesScript: for an invariant-preservation obligation whose clause carries uses(...): the loop invariants assumed
// at the head are restricted to the named ones (every other assumption stays). Sound for `unsat`.
func (o *Oblig) usesScript() string {
	vc := o.vc
	if vc == nil || !o.HasUses {
		return ""
	}
	keep := map[string]bool{}
	for _, u := range o.Uses {
		keep[u] = true
	}
	var body []*Term
	for i, a := range vc.assumes[:o.NAssume] {
		if i < len(vc.tags) && i < len(vc.tagNames) && hasQuant(a) {
			switch vc.tags[i] {
			case 'I', 'R':
				// loop invariants and the function's own preconditions: only the named ones
				if vc.tagNames[i] != "" && !keep[vc.tagNames[i]] {
					continue
				}
			case 'F':
				// frame axioms of abstract predicates: only when the clause asks for them (uses(..., frames))
				if !keep["frames"] {
					continue
				}
			case 'V':
				// invariants re-established by callees (their inv* postconditions): uses(..., callee_inv)
				if !keep["callee_inv"] {
					continue
				}
			}
		}
		body = append(body, a)
	}
	// the key-typing axioms of map domains are left out as well unless asked for (uses(..., keytypes)); scripts
	// are generated sequentially, so the package-level switch is safe
	noKeyTyping = !keep["keytypes"]
	defer func() { noKeyTyping = false }()
	return buildScript(vc, body, mkAnd(o.Reach, mkNot(o.Goal)), false)
}

var noKeyTyping bool

// sliceScript: the query without the quantified assumptions whose provenance tag is in drop (sound for `unsat`:
// fewer hypotheses). Returns "" when fewer than min assumptions would be dropped.
func (o *Oblig) sliceScript(drop string, min int) string {
	vc := o.vc
	if vc == nil || o.Kind == "cover" {
		return ""
	}
	var body []*Term
	dropped := 0
	for i, a := range vc.assumes[:o.NAssume] {
		t := byte(0)
		if i < len(vc.tags) {
			t = vc.tags[i]
		}
		if t != 0 && strings.IndexByte(drop, t) >= 0 && hasQuant(a) {
			dropped++
			continue
		}
		body = append(body, a)
	}
	if dropped < min {
		return ""
	}
	return buildScript(vc, body, mkAnd(o.Reach, mkNot(o.Goal)), false)
}

// identScript: quantifier-free hypotheses plus the quantified hypotheses that state the goal itself (possibly under
// another reach guard): settles "the callee just re-established exactly this" without any quantifier reasoning.
func (o *Oblig) identScript() string {
	vc := o.vc
	if vc == nil || o.Kind == "cover" || !hasQuant(o.Goal) {
		return ""
	}
	gs := alphaKey(o.Goal)
	var body []*Term
	found := false
	for _, a := range vc.assumes[:o.NAssume] {
		if !hasQuant(a) {
			body = append(body, a)
			continue
		}
		f := a
		if a.Kind == TApp && a.Op == "=>" && len(a.Args) == 2 {
			f = a.Args[1]
		}
		// the hypothesis may state the goal as one conjunct under its quantifier: compare conjunct-wise
		for _, part := range splitGoal(f) {
			if part.Kind == TQuant && alphaKey(part) == gs {
				body = append(body, a)
				found = true
				break
			}
		}
	}
	if !found {
		return ""
	}
	return buildScript(vc, body, mkAnd(o.Reach, mkNot(o.Goal)), false)
}

func (o *Oblig) script(wantModel bool) string {
	vc := o.vc
	var body []*Term
	body = append(body, vc.assumes[:o.NAssume]...)
	var final *Term
	if o.Kind == "cover" {
		final = tTrue
	} else {
		final = mkAnd(o.Reach, mkNot(o.Goal))
	}
	return buildScript(vc, body, final, wantModel)
}

func buildScript(vc *VC, assumes []*Term, final *Term, wantModel bool) string {
	// relevance: keep only assumptions connected (transitively) to the final formula through shared symbols,
	// plus quantified global facts.  Definitions are equalities so dropping unrelated ones is sound for unsat.
	vars := map[string]*Sort{}
	ufs := map[string]*Term{}
	all := append(append([]*Term{}, assumes...), final)
	for _, a := range all {
		collectSyms(a, vars, ufs, map[string]bool{})
	}
	var sb strings.Builder
	if wantModel {
		sb.WriteString("(set-option :produce-models true)\n")
	}
	sb.WriteString("(set-logic ALL)\n(declare-sort Ref 0)\n(declare-sort Str 0)\n(declare-fun null () Ref)\n")
	// prelude symbols that axioms mention
	needStrlen := false
	if _, ok := ufs["strlen"]; ok {
		needStrlen = true
	}
	lits := []string{}
	for _, k := range sortedKeys(vars) {
		if strings.HasPrefix(k, "str!") && vars[k] == SStr {
			lits = append(lits, k)
		}
	}
	if len(lits) > 0 {
		needStrlen = true
	}
	for _, u := range []string{"str.upper", "str.lower", "str.cat", "strbytes"} {
		if _, ok := ufs[u]; ok {
			needStrlen = true
		}
	}
	delete(vars, "null")
	for _, k := range sortedKeys(vars) {
		fmt.Fprintf(&sb, "(declare-fun %s () %s)\n", smtName(k), vars[k])
	}
	if needStrlen {
		delete(ufs, "strlen")
		sb.WriteString("(declare-fun strlen (Str) Int)\n")
		sb.WriteString("(assert (forall ((s Str)) (! (and (>= (strlen s) 0) (<= (strlen s) 4611686018427387904)) :pattern ((strlen s)))))\n")
	}
	for _, k := range sortedKeys(ufs) {
		t := ufs[k]
		var as []string
		for _, a := range t.Args {
			as = append(as, a.Sort.String())
		}
		fmt.Fprintf(&sb, "(declare-fun %s (%s) %s)\n", smtName(k), strings.Join(as, " "), t.Sort)
	}
	// string literals
	if len(lits) > 1 {
		sb.WriteString("(assert (distinct")
		for _, l := range lits {
			sb.WriteString(" " + smtName(l))
		}
		sb.WriteString("))\n")
	}
	for _, l := range lits {
		if s, ok := vc.strLits[l]; ok {
			fmt.Fprintf(&sb, "(assert (= (strlen %s) %d))\n", smtName(l), len(s))
		} else if l == emptyStr.Op {
			fmt.Fprintf(&sb, "(assert (= (strlen %s) 0))\n", smtName(l))
		}
	}
	if _, ok := ufs["str.upper"]; ok {
		// upper-casing is idempotent and length preserving; literals that are already upper case are fixed points
		sb.WriteString("(assert (forall ((s Str)) (! (= (strlen (str.upper s)) (strlen s)) :pattern ((str.upper s)))))\n")
		for _, l := range lits {
			if s, ok := vc.strLits[l]; ok && strings.ToUpper(s) == s {
				fmt.Fprintf(&sb, "(assert (= (str.upper %s) %s))\n", smtName(l), smtName(l))
			}
		}
		caseFacts(&sb, vc, lits, "str.upper", strings.ToUpper)
	}
	if _, ok := ufs["str.lower"]; ok {
		sb.WriteString("(assert (forall ((s Str)) (! (= (strlen (str.lower s)) (strlen s)) :pattern ((str.lower s)))))\n")
		caseFacts(&sb, vc, lits, "str.lower", strings.ToLower)
	}
	if _, ok := ufs["str.cat"]; ok {
		sb.WriteString("(assert (forall ((a Str) (b Str) (c Str)) (! (=> (= (str.cat a b) (str.cat a c)) (= b c)) :pattern ((str.cat a b) (str.cat a c)))))\n")
		sb.WriteString("(assert (forall ((a Str) (b Str)) (! (= (strlen (str.cat a b)) (+ (strlen a) (strlen b))) :pattern ((str.cat a b)))))\n")
	}
	if _, ok := ufs["bstr"]; ok && (vc.fc == nil || vc.fc.Flags["bstr_ext"] != "") {
		// string(bytes) depends only on the bytes it covers (extensionality; needed only where a string equality has to
		// be derived from byte equalities: lemmas and functions flagged `bstr_ext`)
		sb.WriteString("(assert (forall ((a (Array Int Int)) (o Int) (n Int) (b (Array Int Int)) (p Int)) (! (=> (forall ((j Int)) (=> (and (<= 0 j) (< j n)) (= (select a (+ o j)) (select b (+ p j))))) (= (bstr a o n) (bstr b p n))) :pattern ((bstr a o n) (bstr b p n)))))\n")
		if _, ok := ufs["strbytes"]; ok {
			sb.WriteString("(assert (forall ((s Str)) (! (= (bstr (strbytes s) 0 (strlen s)) s) :pattern ((strbytes s)))))\n")
		}
	}
	// error sentinels and type tags
	var sents, tags []string
	for _, k := range sortedKeys(vars) {
		if strings.HasPrefix(k, "err!") {
			sents = append(sents, k)
		}
		if strings.HasPrefix(k, "type!") {
			tags = append(tags, k)
		}
	}
	if len(sents) > 0 {
		sb.WriteString("(assert (distinct null")
		for _, s := range sents {
			sb.WriteString(" " + smtName(s))
		}
		sb.WriteString("))\n")
		if _, ok := vars["H$$clock"]; ok {
			if _, ok := ufs["birth"]; ok {
				for _, s := range sents {
					fmt.Fprintf(&sb, "(assert (< (birth %s) |H$$clock|))\n", smtName(s))
				}
			}
		}
		if _, ok := ufs["wraps"]; ok {
			for _, s := range sents {
				fmt.Fprintf(&sb, "(assert (forall ((t Ref)) (! (not (wraps %s t)) :pattern ((wraps %s t)))))\n", smtName(s), smtName(s))
			}
		}
	}
	if len(tags) > 1 {
		sb.WriteString("(assert (distinct")
		for _, s := range tags {
			sb.WriteString(" " + smtName(s))
		}
		sb.WriteString("))\n")
	}
	// element ranges of integer-typed arrays (every version of an E$<inttype> family and every derived inner array)
	for _, k := range sortedKeys(vars) {
		srt := vars[k]
		var tn string
		outer := false
		switch {
		case strings.HasPrefix(k, "H$MD$map[") && srt.Eq(SArr(SRef, SArr(SInt, SBool))):
			// keys present in an integer-keyed map are values of the key type
			kt := k[len("H$MD$map["):]
			if i := strings.Index(kt, "]"); i > 0 && !noKeyTyping {
				if lo, hi, ok := intRangeByName(kt[:i]); ok {
					fmt.Fprintf(&sb, "(assert (forall ((r Ref) (k Int)) (! (=> (select (select %s r) k) (and (<= %s k) (<= k %s))) :pattern ((select (select %s r) k)))))\n",
						smtName(k), mkBig(lo), mkBig(hi), smtName(k))
				}
			}
			continue
		case strings.HasPrefix(k, "H$E$") && srt.Eq(SArr(SRef, SArr(SInt, SInt))):
			tn = strings.SplitN(k[4:], "!", 2)[0]
			outer = true
		case strings.HasPrefix(k, "inner$") && srt.Eq(SArr(SInt, SInt)):
			tn = strings.SplitN(k[6:], "!", 2)[0]
		default:
			continue
		}
		lo, hi, ok := intRangeByName(tn)
		if !ok {
			continue
		}
		if outer {
			fmt.Fprintf(&sb, "(assert (forall ((r Ref) (i Int)) (! (and (<= %s (select (select %s r) i)) (<= (select (select %s r) i) %s)) :pattern ((select (select %s r) i)))))\n",
				mkBig(lo), smtName(k), smtName(k), mkBig(hi), smtName(k))
		} else {
			fmt.Fprintf(&sb, "(assert (forall ((i Int)) (! (and (<= %s (select %s i)) (<= (select %s i) %s)) :pattern ((select %s i)))))\n",
				mkBig(lo), smtName(k), smtName(k), mkBig(hi), smtName(k))
		}
	}
	if _, ok := ufs["strbytes"]; ok {
		sb.WriteString("(assert (forall ((s Str) (i Int)) (! (and (<= 0 (select (strbytes s) i)) (<= (select (strbytes s) i) 255)) :pattern ((select (strbytes s) i)))))\n")
	}
	// same-width sign reinterpretation (lazy axioms instead of mod arithmetic)
	for _, bits := range []int{8, 16, 32, 64} {
		u2s, s2u := fmt.Sprintf("u2s%d", bits), fmt.Sprintf("s2u%d", bits)
		_, hasU := ufs[u2s]
		_, hasS := ufs[s2u]
		if !hasU && !hasS {
			continue
		}
		if !hasU {
			fmt.Fprintf(&sb, "(declare-fun %s (Int) Int)\n", u2s)
		}
		if !hasS {
			fmt.Fprintf(&sb, "(declare-fun %s (Int) Int)\n", s2u)
		}
		half, full := pow2(bits-1).String(), pow2(bits).String()
		fmt.Fprintf(&sb, "(assert (forall ((x Int)) (! (and (=> (and (<= 0 x) (< x %s)) (= (%s x) x)) (=> (and (<= %s x) (< x %s)) (= (%s x) (- x %s))) (<= (- %s) (%s x)) (< (%s x) %s)) :pattern ((%s x)))))\n",
			half, u2s, half, full, u2s, full, half, u2s, u2s, half, u2s)
		fmt.Fprintf(&sb, "(assert (forall ((x Int)) (! (and (=> (and (<= 0 x) (< x %s)) (= (%s x) x)) (=> (and (<= (- %s) x) (< x 0)) (= (%s x) (+ x %s))) (<= 0 (%s x)) (< (%s x) %s)) :pattern ((%s x)))))\n",
			half, s2u, half, s2u, full, s2u, s2u, full, s2u)
		fmt.Fprintf(&sb, "(assert (forall ((x Int)) (! (=> (and (<= 0 x) (< x %s)) (= (%s (%s x)) x)) :pattern ((%s (%s x))))))\n", full, s2u, u2s, s2u, u2s)
		fmt.Fprintf(&sb, "(assert (forall ((x Int)) (! (=> (and (<= (- %s) x) (< x %s)) (= (%s (%s x)) x)) :pattern ((%s (%s x))))))\n", half, half, u2s, s2u, u2s, s2u)
	}
	// byte packing
	for _, w := range []int{2, 4, 8} {
		pk := fmt.Sprintf("pack%d", w)
		_, usesPack := ufs[pk]
		usesByte := false
		for k := 0; k < w; k++ {
			if _, ok := ufs[fmt.Sprintf("byte%d_%d", w, k)]; ok {
				usesByte = true
			}
		}
		if !usesPack && !usesByte {
			continue
		}
		if !usesPack {
			var as []string
			for k := 0; k < w; k++ {
				as = append(as, "Int")
			}
			fmt.Fprintf(&sb, "(declare-fun %s (%s) Int)\n", pk, strings.Join(as, " "))
		}
		var bs []string
		for k := 0; k < w; k++ {
			bn := fmt.Sprintf("byte%d_%d", w, k)
			if _, ok := ufs[bn]; !ok {
				fmt.Fprintf(&sb, "(declare-fun %s (Int) Int)\n", bn)
			}
			bs = append(bs, fmt.Sprintf("(%s v)", bn))
			fmt.Fprintf(&sb, "(assert (forall ((v Int)) (! (and (<= 0 (%s v)) (<= (%s v) 255)) :pattern ((%s v)))))\n", bn, bn, bn)
		}
		fmt.Fprintf(&sb, "(assert (forall ((v Int)) (! (=> (and (<= 0 v) (< v %s)) (= (%s %s) v)) :pattern (%s))))\n", pow2(w*8).String(), pk, strings.Join(bs, " "), bs[0])
		var bvs, bns []string
		for k := 0; k < w; k++ {
			bvs = append(bvs, fmt.Sprintf("(b%d Int)", k))
			bns = append(bns, fmt.Sprintf("b%d", k))
		}
		app := fmt.Sprintf("(%s %s)", pk, strings.Join(bns, " "))
		fmt.Fprintf(&sb, "(assert (forall (%s) (! (and (<= 0 %s) (< %s %s)) :pattern (%s))))\n", strings.Join(bvs, " "), app, app, pow2(w*8).String(), app)
	}
	for _, a := range assumes {
		sb.WriteString("(assert ")
		sb.WriteString(a.String())
		sb.WriteString(")\n")
	}
	sb.WriteString("(assert ")
	sb.WriteString(final.String())
	sb.WriteString(")\n(check-sat)\n")
	if wantModel {
		sb.WriteString("(get-model)\n")
	}
	return sb.String()
}

func intRangeByName(n string) (*big.Int, *big.Int, bool) {
	for _, b := range types.Typ {
		if b.Name() == n && b.Info()&types.IsInteger != 0 && b.Info()&types.IsUntyped == 0 {
			return intRange(b)
		}
	}
	return nil, nil, false
}

// caseFacts: f(lit) = lit' for every pair of literals of the query with conv(lit) == lit'.
func caseFacts(sb *strings.Builder, vc *VC, lits []string, uf string, conv func(string) string) {
	byVal := map[string]string{}
	for _, l := range lits {
		if s, ok := vc.strLits[l]; ok {
			byVal[s] = l
		}
	}
	for _, l := range lits {
		s, ok := vc.strLits[l]
		if !ok {
			continue
		}
		if t, ok := byVal[conv(s)]; ok {
			fmt.Fprintf(sb, "(assert (= (%s %s) %s))\n", uf, smtName(l), smtName(t))
		}
	}
}

type solverResult struct {
	verdict string // unsat sat unknown timeout error
	out     string
	secs    float64
	solver  string
}

func runSolver(name string, script string, timeout time.Duration, dir string, id int, seed int) solverResult {
	return runSolverCtx(context.Background(), name, script, timeout, dir, id, seed)
}

// solverSlots bounds the number of solver processes running at the same time (one per core): timeouts are CPU
// budgets, oversubscription would turn proofs into spurious timeouts.
var solverSlots = make(chan struct{}, 16)

func runSolverCtx(parent context.Context, name string, script string, timeout time.Duration, dir string, id int, seed int) solverResult {
	select {
	case solverSlots <- struct{}{}:
	case <-parent.Done():
		return solverResult{verdict: "cancelled", solver: name}
	}
	defer func() { <-solverSlots }()
	if parent.Err() != nil {
		return solverResult{verdict: "cancelled", solver: name}
	}
	file := filepath.Join(dir, fmt.Sprintf("q%d-%s.smt2", id, strings.ReplaceAll(name, "#", "_")))
	if err := os.WriteFile(file, []byte(script), 0o644); err != nil {
		return solverResult{verdict: "error", out: err.Error(), solver: name}
	}
	defer os.Remove(file)
	ms := int(timeout / time.Millisecond)
	var cmd *exec.Cmd
	ctx, cancel := context.WithTimeout(parent, timeout+3*time.Second)
	defer cancel()
	switch {
	case name == "z3-new":
		cmd = exec.CommandContext(ctx, "z3-new", fmt.Sprintf("-t:%d", ms), fmt.Sprintf("smt.random_seed=%d", seed), "-smt2", file)
	case strings.HasPrefix(name, "z3-new-noext#"):
		// portfolio variants: other seeds (and a few heuristic switches): quantifier instantiation is chaotic on
		// large queries, the same goal is often proved in 0.3 s with one seed and not in 40 s with another
		k := 0
		fmt.Sscanf(name[len("z3-new-noext#"):], "%d", &k)
		opts := []string{fmt.Sprintf("-t:%d", ms), fmt.Sprintf("smt.random_seed=%d", seed+k), "smt.array.extensional=false"}
		switch k % 4 {
		case 1:
			opts = append(opts, "smt.qi.eager_threshold=5")
		case 2:
			opts = append(opts, "smt.restart_strategy=0", "smt.phase_selection=0")
		}
		cmd = exec.CommandContext(ctx, "z3-new", append(opts, "-smt2", file)...)
	case name == "z3-new-noext":
		// array extensionality off: fewer inferences (never unsound for `unsat`), much faster on these queries
		cmd = exec.CommandContext(ctx, "z3-new", fmt.Sprintf("-t:%d", ms), fmt.Sprintf("smt.random_seed=%d", seed), "smt.array.extensional=false", "-smt2", file)
	case name == "z3":
		cmd = exec.CommandContext(ctx, "z3", fmt.Sprintf("-t:%d", ms), fmt.Sprintf("smt.random_seed=%d", seed), "-smt2", file)
	default:
		cmd = exec.CommandContext(ctx, "cvc5", fmt.Sprintf("--tlimit=%d", ms), fmt.Sprintf("--seed=%d", seed), "--lang=smt2", file)
	}
	var out bytes.Buffer
	cmd.Stdout = &out
	cmd.Stderr = &out
	t0 := time.Now()
	_ = cmd.Run()
	secs := time.Since(t0).Seconds()
	text := out.String()
	first := ""
	for _, l := range strings.Split(text, "\n") {
		l = strings.TrimSpace(l)
		if l == "" || strings.HasPrefix(l, "WARNING") || strings.HasPrefix(l, "(warning") {
			continue
		}
		first = l
		break
	}
	v := "error"
	switch {
	case first == "unsat":
		v = "unsat"
	case first == "sat":
		v = "sat"
	case first == "unknown":
		v = "unknown"
	case strings.Contains(first, "timeout") || strings.Contains(text, "interrupted") || ctx.Err() != nil:
		v = "timeout"
	}
	if v == "unknown" && secs >= timeout.Seconds()*0.95 {
		v = "timeout"
	}
	if v == "error" && len(text) > 2000 {
		text = text[:2000]
	}
	return solverResult{verdict: v, out: text, secs: secs, solver: name}
}

type solveOpts struct {
	timeout  time.Duration
	workers  int
	seed     int
	second   bool // require a second solver to agree (thorough)
	scratch  string
	keepFail string // directory to keep failing queries
	hints    map[string]string // obligation id -> solver variant that discharged it before (tried first; never a verdict)
}

// portfolio: the solver variants raced when the primary attempt is inconclusive
var portfolio = []string{"z3-new-noext#1", "z3-new-noext#2", "z3-new-noext#3", "z3-new-noext#4", "z3-new-noext#5", "z3-new-noext#6", "z3-new-noext#7", "cvc5", "z3-new", "z3"}

func variantScript(o *Oblig, j int) string {
	if o.slimText != "" && j%2 == 1 && strings.HasPrefix(portfolio[j], "z3-new-noext#") {
		return o.slimText // every other seed works on the slim query
	}
	return o.scriptText
}

func solveAll(obs []*Oblig, opt solveOpts) {
	var wg sync.WaitGroup
	ch := make(chan int)
	for w := 0; w < opt.workers; w++ {
		wg.Add(1)
		go func() {
			defer wg.Done()
			for i := range ch {
				solveOne(obs[i], i, opt)
			}
		}()
	}
	// scripts are generated sequentially (term caches are not thread safe)
	scripts := make([]string, len(obs))
	for i, o := range obs {
		scripts[i] = o.script(false)
		o.scriptText = scripts[i]
		if o.Kind == "cover" {
			o.qfText = o.coverQF()
		} else if o.Kind == "ensures" || o.Kind == "invariant" || o.Kind == "requires" || o.Kind == "frame" {
			o.slimText = o.slimScript()
			o.identText = o.identScript()
		}
		if o.HasUses {
			o.usesText = o.usesScript()
		}
		if h := opt.hints[o.ID]; strings.HasPrefix(h, "z3-new-noext(slice-") {
			o.hintName = strings.TrimSuffix(strings.TrimPrefix(h, "z3-new-noext(slice-"), ")")
			o.hintText = o.sliceScript(o.hintName, 1)
		}
	}
	for i := range obs {
		ch <- i
	}
	close(ch)
	wg.Wait()
	// second chance for obligations no configuration decided: slices of the assumption set by provenance
	// (F frame axioms, E callee postconditions, V callee invariant re-establishment, I loop invariants, L lemmas)
	{
		type job struct {
			o    *Oblig
			name string
			text string
		}
		var jobs []job
		for _, o := range obs {
			if o.Kind == "cover" || o.Verdict == "unsat" || o.Verdict == "sat" || o.vc == nil {
				continue
			}
			seen := map[string]bool{o.scriptText: true, o.slimText: true}
			for _, d := range []string{"F", "FV", "FEV", "EV", "FIL", "V"} {
				t := o.sliceScript(d, 1)
				if t == "" || seen[t] {
					continue
				}
				seen[t] = true
				jobs = append(jobs, job{o, "slice-" + d, t})
			}
		}
		var mu sync.Mutex
		var wg2 sync.WaitGroup
		sem := make(chan struct{}, opt.workers)
		for ji, j := range jobs {
			ji, j := ji, j
			wg2.Add(1)
			sem <- struct{}{}
			go func() {
				defer wg2.Done()
				defer func() { <-sem }()
				mu.Lock()
				done := j.o.Verdict == "unsat"
				mu.Unlock()
				if done {
					return
				}
				r := runSolver("z3-new-noext", j.text, opt.timeout, opt.scratch, 2000000+ji, opt.seed)
				mu.Lock()
				j.o.Attempts = append(j.o.Attempts, fmt.Sprintf("%s:%s:%.2fs", j.name, r.verdict, r.secs))
				if r.verdict == "unsat" && j.o.Verdict != "unsat" {
					j.o.Verdict, j.o.Solver, j.o.Output = "unsat", "z3-new-noext("+j.name+")", r.out
					j.o.TimeS += r.secs
					j.o.Slim = true
				}
				mu.Unlock()
			}()
		}
		wg2.Wait()
	}
	// model search for failed obligations without a model
	var need []*Oblig
	for _, o := range obs {
		if o.Verdict != "unsat" && o.Verdict != "vacuous" && o.Model == "" && o.Kind != "cover" && o.vc != nil && !hasQuant(o.Goal) {
			need = append(need, o)
		}
	}
	if len(need) == 0 {
		return
	}
	qs := make([]string, len(need))
	for i, o := range need {
		qs[i] = o.qfScript()
	}
	ch2 := make(chan int)
	var wg2 sync.WaitGroup
	for w := 0; w < opt.workers; w++ {
		wg2.Add(1)
		go func() {
			defer wg2.Done()
			for i := range ch2 {
				m := runSolver("z3-new", qs[i], opt.timeout, opt.scratch, 200000+i, opt.seed)
				need[i].Attempts = append(need[i].Attempts, fmt.Sprintf("qf-weakening:%s:%s:%.2fs", m.solver, m.verdict, m.secs))
				if m.verdict == "sat" {
					need[i].Model = m.out
					need[i].ModelQF = true
				}
			}
		}()
	}
	for i := range need {
		ch2 <- i
	}
	close(ch2)
	wg2.Wait()
}

func solveOne(o *Oblig, id int, opt solveOpts) {
	script := o.scriptText
	want := "unsat"
	if o.Kind == "cover" {
		want = "sat"
	}
	if o.Kind != "cover" && isTrue(o.Goal) {
		o.Verdict, o.Solver, o.TimeS = "unsat", "trivial", 0
		return
	}
	if o.Kind != "cover" && isFalse(o.Reach) {
		o.Verdict, o.Solver, o.TimeS = "unsat", "trivial", 0
		return
	}
	if o.Kind == "cover" {
		// vacuity: the full assumption set must not be refutable quickly, and its quantifier-free part must be satisfiable
		r := runSolver("z3-new", script, 2*time.Second, opt.scratch, id, opt.seed)
		o.Attempts = append(o.Attempts, fmt.Sprintf("full:%s:%s:%.2fs", r.solver, r.verdict, r.secs))
		o.Solver, o.TimeS, o.Output = r.solver, r.secs, r.out
		if r.verdict == "unsat" {
			o.Verdict = "vacuous"
			return
		}
		if r.verdict != "sat" {
			q := runSolver("z3-new", o.qfText, opt.timeout, opt.scratch, id+300000, opt.seed)
			o.Attempts = append(o.Attempts, fmt.Sprintf("qf-part:%s:%s:%.2fs", q.solver, q.verdict, q.secs))
			o.TimeS += q.secs
			if q.verdict == "unsat" {
				o.Verdict = "vacuous"
				return
			}
			o.Solver += "(cover:full " + r.verdict + ", qf-part " + q.verdict + ")"
		}
		o.Verdict = "unsat"
		return
	}
	primary := opt.timeout
	if primary > 5*time.Second {
		primary = 5 * time.Second // most obligations need well under a second; hard ones go to the portfolio
	}
	if o.identText != "" {
		rs := runSolver("z3-new-noext", o.identText, 2*time.Second, opt.scratch, id+800000, opt.seed)
		o.Attempts = append(o.Attempts, fmt.Sprintf("ident:%s:%s:%.2fs", rs.solver, rs.verdict, rs.secs))
		if rs.verdict == "unsat" {
			o.Verdict, o.Solver, o.TimeS, o.Output = "unsat", "z3-new-noext(ident)", rs.secs, rs.out
			o.Slim = true
			return
		}
	}
	if o.slimText != "" {
		rs := runSolver("z3-new-noext", o.slimText, 3*time.Second, opt.scratch, id+700000, opt.seed)
		o.Attempts = append(o.Attempts, fmt.Sprintf("slim:%s:%s:%.2fs", rs.solver, rs.verdict, rs.secs))
		if rs.verdict == "unsat" {
			o.Verdict, o.Solver, o.TimeS, o.Output = "unsat", "z3-new-noext(slim)", rs.secs, rs.out
			o.Slim = true
			return
		}
	}
	if o.usesText != "" {
		ru := runSolver("z3-new-noext", o.usesText, 2*primary, opt.scratch, id+960000, opt.seed)
		o.Attempts = append(o.Attempts, fmt.Sprintf("uses:%s:%.2fs", ru.verdict, ru.secs))
		if ru.verdict == "unsat" {
			o.Verdict, o.Solver, o.TimeS, o.Output = "unsat", "z3-new-noext(uses)", ru.secs, ru.out
			o.Slim = true
			return
		}
	}
	if o.hintText != "" {
		rh := runSolver("z3-new-noext", o.hintText, 30*time.Second, opt.scratch, id+950000, opt.seed)
		o.Attempts = append(o.Attempts, fmt.Sprintf("hint:slice-%s:%s:%.2fs", o.hintName, rh.verdict, rh.secs))
		if rh.verdict == "unsat" {
			o.Verdict, o.Solver, o.TimeS, o.Output = "unsat", "z3-new-noext(slice-"+o.hintName+")", rh.secs, rh.out
			o.Hinted, o.Slim = true, true
			return
		}
	}
	if h := opt.hints[o.ID]; h != "" {
		// the variant that discharged this obligation in an earlier run goes first, with a generous budget: the
		// same query and seed give the same answer, so a passing obligation keeps passing under load
		for j, nm := range portfolio {
			if nm != h {
				continue
			}
			budget := opt.timeout
			if budget < 30*time.Second {
				budget = 30 * time.Second
			}
			rh := runSolver(nm, variantScript(o, j), budget, opt.scratch, id+900000, opt.seed)
			o.Attempts = append(o.Attempts, fmt.Sprintf("hint:%s:%s:%.2fs", rh.solver, rh.verdict, rh.secs))
			if rh.verdict == "unsat" {
				o.Verdict, o.Solver, o.TimeS, o.Output = "unsat", rh.solver, rh.secs, rh.out
				o.Hinted = true
				return
			}
		}
	}
	r := runSolver("z3-new-noext", script, primary, opt.scratch, id, opt.seed)
	o.Attempts = append(o.Attempts, fmt.Sprintf("%s:%s:%.2fs", r.solver, r.verdict, r.secs))
	if r.verdict == "sat" {
		// a model without extensionality may be spurious: confirm with the full theory
		r2 := runSolver("z3-new", script, opt.timeout, opt.scratch, id+400000, opt.seed)
		o.Attempts = append(o.Attempts, fmt.Sprintf("%s:%s:%.2fs", r2.solver, r2.verdict, r2.secs))
		r = r2
	}
	if r.verdict != want && !(r.verdict == "sat" || r.verdict == "unsat") && os.Getenv("GOVC_FAST") == "" {
		// race the others
		others := portfolio
		rc := make(chan solverResult, len(others))
		ctx, cancel := context.WithCancel(context.Background())
		for j, nm := range others {
			nm, j := nm, j
			sc := variantScript(o, j)
			go func() { rc <- runSolverCtx(ctx, nm, sc, opt.timeout, opt.scratch, id+500000+j*100000, opt.seed) }()
		}
		for k := 0; k < len(others); k++ {
			r2 := <-rc
			if r2.verdict == "unsat" || r2.verdict == "sat" || k == len(others)-1 {
				o.Attempts = append(o.Attempts, fmt.Sprintf("%s:%s:%.2fs", r2.solver, r2.verdict, r2.secs))
			}
			if r2.verdict == "unsat" || (r2.verdict == "sat" && !strings.Contains(r2.solver, "noext")) {
				if !(r.verdict == "unsat" || r.verdict == "sat") {
					r = r2
					r.secs += primary.Seconds()
				}
				cancel() // first definite answer wins; stop the rest
			}
		}
		cancel()
	}
	o.Verdict, o.Solver, o.TimeS, o.Output = r.verdict, r.solver, r.secs, r.out
	if o.Kind == "cover" {
		// vacuity check: unsat means the assumptions are contradictory
		if r.verdict == "unsat" {
			o.Verdict = "vacuous"
		} else {
			o.Verdict = "unsat" // treated as pass (assumptions not shown contradictory)
			if r.verdict != "sat" {
				o.Solver += "(cover:" + r.verdict + ")"
			}
		}
		return
	}
	if o.Verdict == "unsat" && opt.second {
		other := "cvc5"
		if r.solver == "cvc5" {
			other = "z3-new"
		}
		r2 := runSolver(other, script, opt.timeout, opt.scratch, id, opt.seed)
		o.Attempts = append(o.Attempts, fmt.Sprintf("%s:%s:%.2fs", r2.solver, r2.verdict, r2.secs))
		if r2.verdict == "unsat" {
			o.Second = other
		} else if r2.verdict == "sat" {
			o.Verdict = "disagree"
		}
	}
	if o.Verdict != "unsat" {
		// try to get a model from z3-new
		if o.Verdict == "sat" {
			m := runSolver("z3-new", "(set-option :produce-models true)\n"+script+"(get-model)\n", opt.timeout, opt.scratch, id+100000, opt.seed)
			if m.verdict == "sat" {
				o.Model = m.out
			}
		}
	}
}

func summarizeBackends(obs []*Oblig) map[string]int {
	m := map[string]int{}
	for _, o := range obs {
		m[o.Solver]++
	}
	return m
}

func slowest(obs []*Oblig, n int) []map[string]interface{} {
	s := append([]*Oblig{}, obs...)
	sort.Slice(s, func(i, j int) bool { return s[i].TimeS > s[j].TimeS })
	var out []map[string]interface{}
	for i := 0; i < n && i < len(s); i++ {
		out = append(out, map[string]interface{}{"obligation": s[i].ID, "solver_s": s[i].TimeS, "backend": s[i].Solver})
	}
	return out
}
