package main

// Symbolic values, type flattening and heap families.

import (
	"fmt"
	"go/types"
	"math/big"
	"strings"

	"golang.org/x/tools/go/ssa"
)

type Val interface{}

type VS struct{ T *Term } // scalar: Int Bool Real Ref Str
type VSlice struct{ Base, Off, Len, Cap *Term }
type VStruct struct{ F []Val }
type VTuple struct{ E []Val }
type VClosure struct {
	Fn   *ssa.Function
	Bind []Val
}
type VFunc struct{ Fn *ssa.Function }
type VIter struct {
	Map     *Term
	MapType *types.Map
	Visited string // pseudo-heap key of ghost visited set
}

const (
	PLocal = iota
	PField
	PElem
	PGlobal
	PCell
)

type VPtr struct {
	Kind  int
	Alloc *ssa.Alloc
	Glob  *ssa.Global
	Base  *Term      // PField: object; PElem: slice base; PCell: cell ref
	Idx   *Term      // PElem absolute index
	Root  types.Type // type stored at the root location (struct type for PField, elem type for PElem, ...)
	Path  []int      // struct field path below the root
}

func (p *VPtr) extend(i int) *VPtr {
	q := *p
	q.Path = append(append([]int{}, p.Path...), i)
	return &q
}

// ---------------------------------------------------------------- package short names

var pkgShort = map[string]string{}
var pkgShortUsed = map[string]string{}

func shortPkg(path string) string {
	if s, ok := pkgShort[path]; ok {
		return s
	}
	parts := strings.Split(path, "/")
	s := parts[len(parts)-1]
	if strings.HasPrefix(s, "v") && len(parts) > 1 && len(s) <= 3 {
		s = parts[len(parts)-2]
	}
	base := s
	for n := 2; ; n++ {
		if p, used := pkgShortUsed[s]; !used || p == path {
			break
		}
		if len(parts) >= 2 {
			s = fmt.Sprintf("%s_%s", parts[len(parts)-2], base)
			if n > 2 {
				s = fmt.Sprintf("%s_%s%d", parts[len(parts)-2], base, n)
			}
		} else {
			s = fmt.Sprintf("%s%d", base, n)
		}
	}
	pkgShort[path] = s
	pkgShortUsed[s] = path
	return s
}

func qual(p *types.Package) string { return shortPkg(p.Path()) }

var typeKeyCache = map[types.Type]string{}

// typeKey: canonical printed form of a type (byte/rune aliases are normalised to uint8/int32).
func typeKey(t types.Type) string {
	if s, ok := typeKeyCache[t]; ok {
		return s
	}
	s := types.TypeString(t, qual)
	s = replaceWord(s, "byte", "uint8")
	s = replaceWord(s, "rune", "int32")
	s = replaceWord(s, "any", "interface{}")
	typeKeyCache[t] = s
	return s
}

func replaceWord(s, w, r string) string {
	if !strings.Contains(s, w) {
		return s
	}
	var sb strings.Builder
	for i := 0; i < len(s); {
		if strings.HasPrefix(s[i:], w) {
			before := i == 0 || !(isIdentChar(s[i-1]) || s[i-1] == '.')
			j := i + len(w)
			after := j >= len(s) || !isIdentChar(s[j])
			if before && after {
				sb.WriteString(r)
				i = j
				continue
			}
		}
		sb.WriteByte(s[i])
		i++
	}
	return sb.String()
}

// ---------------------------------------------------------------- sorts of Go types

func leafSort(t types.Type) *Sort {
	if st, ok := t.(*specT); ok {
		switch st.kind {
		case "set":
			return SArr(leafSort(st.k), SBool)
		case "arr":
			return SArr(SInt, leafSort(st.v))
		}
		return SInt
	}
	switch u := t.Underlying().(type) {
	case *types.Basic:
		info := u.Info()
		switch {
		case info&types.IsBoolean != 0:
			return SBool
		case info&types.IsInteger != 0:
			return SInt
		case info&types.IsFloat != 0:
			return SReal
		case info&types.IsString != 0:
			return SStr
		case u.Kind() == types.UnsafePointer:
			return SRef
		case u.Kind() == types.UntypedNil:
			return SRef
		case info&types.IsComplex != 0:
			return SInt
		}
		return SInt
	}
	return SRef
}

type Leaf struct {
	Path string // ".f.g" or ".f.base"
	Sort *Sort
	Typ  types.Type // Go type of scalar leaf; for slice parts the slice type
	Part string     // "", base, off, len, cap
}

var leafCache = map[string][]Leaf{}

func isStruct(t types.Type) (*types.Struct, bool) {
	s, ok := t.Underlying().(*types.Struct)
	return s, ok
}

func isSliceT(t types.Type) (*types.Slice, bool) {
	s, ok := t.Underlying().(*types.Slice)
	return s, ok
}

func leaves(t types.Type) []Leaf {
	k := typeKey(t)
	if l, ok := leafCache[k]; ok {
		return l
	}
	var out []Leaf
	switch u := t.Underlying().(type) {
	case *types.Struct:
		for i := 0; i < u.NumFields(); i++ {
			f := u.Field(i)
			for _, l := range leaves(f.Type()) {
				out = append(out, Leaf{Path: "." + f.Name() + l.Path, Sort: l.Sort, Typ: l.Typ, Part: l.Part})
			}
		}
	case *types.Slice:
		out = []Leaf{{".base", SRef, t, "base"}, {".off", SInt, t, "off"}, {".len", SInt, t, "len"}, {".cap", SInt, t, "cap"}}
	case *types.Tuple:
		for i := 0; i < u.Len(); i++ {
			for _, l := range leaves(u.At(i).Type()) {
				out = append(out, Leaf{Path: fmt.Sprintf(".%d%s", i, l.Path), Sort: l.Sort, Typ: l.Typ, Part: l.Part})
			}
		}
	default:
		out = []Leaf{{"", leafSort(t), t, ""}}
	}
	leafCache[k] = out
	return out
}

// buildVal constructs a Val of type t from per-leaf terms (get is called in leaf order with full path).
func buildVal(t types.Type, prefix string, get func(l Leaf) *Term) Val {
	switch u := t.Underlying().(type) {
	case *types.Struct:
		vs := &VStruct{}
		for i := 0; i < u.NumFields(); i++ {
			f := u.Field(i)
			vs.F = append(vs.F, buildVal(f.Type(), prefix+"."+f.Name(), get))
		}
		return vs
	case *types.Slice:
		return &VSlice{
			Base: get(Leaf{prefix + ".base", SRef, t, "base"}),
			Off:  get(Leaf{prefix + ".off", SInt, t, "off"}),
			Len:  get(Leaf{prefix + ".len", SInt, t, "len"}),
			Cap:  get(Leaf{prefix + ".cap", SInt, t, "cap"}),
		}
	case *types.Tuple:
		vt := &VTuple{}
		for i := 0; i < u.Len(); i++ {
			vt.E = append(vt.E, buildVal(u.At(i).Type(), fmt.Sprintf("%s.%d", prefix, i), get))
		}
		return vt
	}
	return &VS{get(Leaf{prefix, leafSort(t), t, ""})}
}

// walkVal visits leaves of v (of type t) in the same order as buildVal.
func walkVal(t types.Type, prefix string, v Val, f func(l Leaf, tm *Term)) {
	switch u := t.Underlying().(type) {
	case *types.Struct:
		vs, ok := v.(*VStruct)
		if !ok {
			panic(fmt.Sprintf("walkVal: expected struct value for %s, got %T", t, v))
		}
		for i := 0; i < u.NumFields(); i++ {
			fl := u.Field(i)
			walkVal(fl.Type(), prefix+"."+fl.Name(), vs.F[i], f)
		}
		return
	case *types.Slice:
		s, ok := v.(*VSlice)
		if !ok {
			panic(fmt.Sprintf("walkVal: expected slice value for %s, got %T", t, v))
		}
		f(Leaf{prefix + ".base", SRef, t, "base"}, s.Base)
		f(Leaf{prefix + ".off", SInt, t, "off"}, s.Off)
		f(Leaf{prefix + ".len", SInt, t, "len"}, s.Len)
		f(Leaf{prefix + ".cap", SInt, t, "cap"}, s.Cap)
		return
	case *types.Tuple:
		vt := v.(*VTuple)
		for i := 0; i < u.Len(); i++ {
			walkVal(u.At(i).Type(), fmt.Sprintf("%s.%d", prefix, i), vt.E[i], f)
		}
		return
	}
	f(Leaf{prefix, leafSort(t), t, ""}, scalarOf(v, t))
}

// scalarOf coerces a Val to a scalar term (pointers to whole objects become Refs).
func scalarOf(v Val, t types.Type) *Term {
	switch x := v.(type) {
	case *VS:
		return x.T
	case *VPtr:
		if x.Kind == PField && len(x.Path) == 0 {
			return x.Base
		}
		if x.Kind == PCell && len(x.Path) == 0 {
			return x.Base
		}
		panic(unsupported(fmt.Sprintf("interior pointer used as a value (%s)", ptrString(x))))
	case *VClosure:
		return mkVar("closure!"+x.Fn.Name(), SRef)
	case *VFunc:
		return mkVar("func!"+x.Fn.String(), SRef)
	case nil:
		panic(unsupported("nil Val"))
	}
	panic(unsupported(fmt.Sprintf("cannot use %T as scalar of type %v", v, t)))
}

func ptrString(p *VPtr) string {
	switch p.Kind {
	case PLocal:
		return fmt.Sprintf("&local %s%v", p.Alloc.Comment, p.Path)
	case PField:
		return fmt.Sprintf("&(%s)%v", p.Base, p.Path)
	case PElem:
		return fmt.Sprintf("&elem(%s)[%s]%v", p.Base, p.Idx, p.Path)
	case PGlobal:
		return "&global " + p.Glob.Name()
	case PCell:
		return fmt.Sprintf("&cell(%s)", p.Base)
	}
	return "?"
}

type unsupportedErr string

func unsupported(s string) unsupportedErr { return unsupportedErr(s) }

var emptyStr = mkVar("str!empty", SStr)

func zeroTerm(s *Sort) *Term {
	switch s {
	case SInt:
		return mkInt(0)
	case SBool:
		return tFalse
	case SReal:
		return mkReal("0.0")
	case SRef:
		return tNull
	case SStr:
		return emptyStr
	}
	panic("zeroTerm: " + s.String())
}

func zeroVal(t types.Type) Val {
	return buildVal(t, "", func(l Leaf) *Term { return zeroTerm(l.Sort) })
}

// subPath returns the type and leaf-path prefix reached from root through field path.
func subPath(root types.Type, path []int) (types.Type, string) {
	t := root
	p := ""
	for _, i := range path {
		st, ok := isStruct(t)
		if !ok {
			panic(unsupported(fmt.Sprintf("field path through non-struct %v", t)))
		}
		p += "." + st.Field(i).Name()
		t = st.Field(i).Type()
	}
	return t, p
}

// ---------------------------------------------------------------- integer ranges

var two = big.NewInt(2)

func pow2(n int) *big.Int { return new(big.Int).Exp(two, big.NewInt(int64(n)), nil) }

// intRange returns (lo, hi, ok) for integer types.
func intRange(t types.Type) (*big.Int, *big.Int, bool) {
	b, ok := t.Underlying().(*types.Basic)
	if !ok || b.Info()&types.IsInteger == 0 {
		return nil, nil, false
	}
	bits := 64
	switch b.Kind() {
	case types.Int8, types.Uint8:
		bits = 8
	case types.Int16, types.Uint16:
		bits = 16
	case types.Int32, types.Uint32:
		bits = 32
	case types.UntypedInt:
		return nil, nil, false
	}
	if b.Info()&types.IsUnsigned != 0 {
		return big.NewInt(0), new(big.Int).Sub(pow2(bits), big.NewInt(1)), true
	}
	return new(big.Int).Neg(pow2(bits - 1)), new(big.Int).Sub(pow2(bits-1), big.NewInt(1)), true
}

func rangeFact(tm *Term, t types.Type) *Term {
	lo, hi, ok := intRange(t)
	if !ok {
		return tTrue
	}
	return mkAnd(mkCmp("<=", mkBig(lo), tm), mkCmp("<=", tm, mkBig(hi)))
}

// wrap reduces a mathematical integer to the range of type t (two's complement).
func wrapTo(tm *Term, t types.Type) *Term {
	lo, hi, ok := intRange(t)
	if !ok {
		return tm
	}
	size := new(big.Int).Add(new(big.Int).Sub(hi, lo), big.NewInt(1))
	if tm.Kind == TInt {
		v := new(big.Int).Sub(tm.Int, lo)
		v.Mod(v, size)
		v.Add(v, lo)
		return mkBig(v)
	}
	inRange := mkAnd(mkCmp("<=", mkBig(lo), tm), mkCmp("<=", tm, mkBig(hi)))
	if lo.Sign() == 0 {
		return mkIte(inRange, tm, mkApp("mod", SInt, tm, mkBig(size)))
	}
	// signed: ((tm - lo) mod size) + lo
	return mkIte(inRange, tm, mkAdd(mkApp("mod", SInt, mkSub(tm, mkBig(lo)), mkBig(size)), mkBig(lo)))
}

// convInt converts an integer term of Go type `from` to type `to`: identity when the source range is contained in
// the target range; same-width sign reinterpretation through an uninterpreted function with lazy axioms (keeps
// the solver out of mod arithmetic); general two's-complement wrap otherwise.
func convInt(tm *Term, from, to types.Type) *Term {
	flo, fhi, fok := intRange(from)
	tlo, thi, tok := intRange(to)
	if !tok {
		return tm
	}
	if tm.Kind == TInt {
		return wrapTo(tm, to)
	}
	if fok {
		if flo.Cmp(tlo) >= 0 && fhi.Cmp(thi) <= 0 {
			return tm
		}
		fsize := new(big.Int).Sub(fhi, flo)
		tsize := new(big.Int).Sub(thi, tlo)
		if fsize.Cmp(tsize) == 0 {
			bits := fsize.BitLen()
			if flo.Sign() == 0 {
				return mkApp(fmt.Sprintf("u2s%d", bits), SInt, tm)
			}
			return mkApp(fmt.Sprintf("s2u%d", bits), SInt, tm)
		}
	}
	return wrapTo(tm, to)
}

// wrap1 handles results of a single + or - whose operands are in range: at most one wrap.
func wrap1(tm *Term, t types.Type) *Term {
	lo, hi, ok := intRange(t)
	if !ok {
		return tm
	}
	if tm.Kind == TInt {
		return wrapTo(tm, t)
	}
	size := new(big.Int).Add(new(big.Int).Sub(hi, lo), big.NewInt(1))
	return mkIte(mkCmp(">", tm, mkBig(hi)), mkSub(tm, mkBig(size)), mkIte(mkCmp("<", tm, mkBig(lo)), mkAdd(tm, mkBig(size)), tm))
}
