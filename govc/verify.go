package main

// Contract calls, modifies/frames, top-level function verification.

import (
	"fmt"
	"go/types"
	"strings"

	"golang.org/x/tools/go/ssa"
)

type modTarget struct {
	key  string
	sort *Sort
	idx  *Term // nil: whole family (or the global itself)
	sub  *Term // for map families: optional key restriction (unused)
}

// paramEnv builds the spec environment binding a function's parameter names to values.
func (vc *VC) paramEnv(fn *ssa.Function, fc *FuncContract, args []Val, bind []Val, st, old *State) *SpecEnv {
	env := vc.newEnv(fnPkg(fn), st, old)
	if fc != nil && fc.Extern {
		// extern contract files resolve names relative to their own imports
		env.imports = vc.eng.contracts.Imports[fc.File]
		for k, v := range vc.eng.importsOf(env.pkg) {
			if _, ok := env.imports[k]; !ok {
				env.imports[k] = v
			}
		}
	}
	sig := fn.Signature
	var names []string
	var typs []types.Type
	if sig.Recv() != nil {
		names = append(names, sig.Recv().Name())
		typs = append(typs, sig.Recv().Type())
	}
	for i := 0; i < sig.Params().Len(); i++ {
		names = append(names, sig.Params().At(i).Name())
		typs = append(typs, sig.Params().At(i).Type())
	}
	if len(fn.Params) == len(names) {
		for i, p := range fn.Params {
			names[i] = p.Name()
		}
	}
	if fc != nil && len(fc.ParamNames) > 0 {
		pn := fc.ParamNames
		if sig.Recv() == nil && fn.Parent() != nil && len(pn) == len(names)+1 {
			pn = pn[1:] // function literal inside a method: the header names the enclosing receiver
		}
		for i, n := range pn {
			if i < len(names) && n != "_" && n != "" {
				names[i] = n
			}
		}
	}
	for i := range names {
		if i < len(args) {
			env.vars[names[i]] = TV{args[i], typs[i]}
		}
	}
	if sig.Recv() != nil && len(args) > 0 {
		// `receiver`: the method's receiver, for bodies that shadow the receiver's name with a local
		if _, taken := env.vars["receiver"]; !taken {
			env.vars["receiver"] = TV{args[0], typs[0]}
		}
	}
	for i, fv := range fn.FreeVars {
		if i < len(bind) {
			et := fv.Type().(*types.Pointer).Elem()
			b := bind[i]
			func() {
				defer func() { recover() }()
				env.vars[fv.Name()] = TV{vc.loadPtr(st, asPtr(b, et), et), et}
			}()
		}
	}
	return env
}

func bindResults(env *SpecEnv, sig *types.Signature, results []Val) {
	rs := sig.Results()
	switch rs.Len() {
	case 0:
	case 1:
		env.vars["result"] = TV{results[0], rs.At(0).Type()}
	default:
		env.vars["result"] = TV{&VTuple{E: results}, rs}
	}
	for i := 0; i < rs.Len(); i++ {
		if n := rs.At(i).Name(); n != "" && n != "_" {
			env.vars[n] = TV{results[i], rs.At(i).Type()}
		}
	}
}

func (env *SpecEnv) clause(c *Clause) (res *Term) {
	defer func() {
		if r := recover(); r != nil {
			if se, ok := r.(specErr); ok {
				panic(unsupported(fmt.Sprintf("contract %s (%s:%d): %s", c.Name, shortPos(c.File), c.Line, string(se))))
			}
			panic(r)
		}
	}()
	return env.boolOf(env.eval(c.Expr))
}

// modTargets evaluates modifies expressions to heap targets.
func (env *SpecEnv) modTargets(exprs []*SExpr) (out []modTarget) {
	vc := env.vc
	for _, m := range exprs {
		func() {
			defer func() {
				if r := recover(); r != nil {
					if se, ok := r.(specErr); ok {
						panic(unsupported("modifies " + m.String() + ": " + string(se)))
					}
					panic(r)
				}
			}()
			switch {
			case m.Kind == SCall && m.X.Kind == SIdent && m.X.Name == "elems":
				x := env.eval(m.Args[0])
				s, ok := x.V.(*VSlice)
				if !ok {
					env.fail("elems() of non-slice")
				}
				et := x.T.Underlying().(*types.Slice).Elem()
				fams := famKeysFor("E", et, "", et)
				for _, k := range sortedKeys(fams) {
					out = append(out, modTarget{key: k, sort: fams[k], idx: s.Base})
				}
			case m.Kind == SCall && m.X.Kind == SIdent && m.X.Name == "map":
				x := env.eval(m.Args[0])
				mt, ok := x.T.Underlying().(*types.Map)
				if !ok {
					env.fail("map() of non-map")
				}
				r := env.scalar(x)
				fams := mapFamKeys(mt)
				for _, k := range sortedKeys(fams) {
					out = append(out, modTarget{key: k, sort: fams[k], idx: r})
				}
			case m.Kind == SCall && m.X.Kind == SIdent && m.X.Name == "all":
				x := env.eval(m.Args[0])
				bt, isPtr := derefType(x.T)
				if !isPtr {
					env.fail("all() needs a pointer")
				}
				p := asPtr(x.V, bt)
				_, sub := subPath(p.Root, p.Path)
				kind := "F"
				if p.Kind == PCell {
					kind = "C"
				}
				fams := famKeysFor(kind, p.Root, sub, bt)
				for _, k := range sortedKeys(fams) {
					out = append(out, modTarget{key: k, sort: fams[k], idx: p.Base})
				}
				// ghost fields of the type
				for _, g := range vc.eng.ghostsOf(bt) {
					gty := env.resolveTypeIn(g)
					key, base := vc.ghostLoc(p, bt, g.Field)
					out = append(out, modTarget{key: key, sort: SArr(SRef, ghostSort(gty)), idx: base})
				}
			case m.Kind == SCall && m.X.Kind == SIdent && m.X.Name == "every":
				// every(x.f): the whole family of field f
				ts := env.modTargets(m.Args)
				for _, t := range ts {
					t.idx = nil
					out = append(out, t)
				}
			case m.Kind == SIdent && vc.eng.contracts.GhostVars[m.Name] != nil:
				gty := env.resolveTypeIn(vc.eng.contracts.GhostVars[m.Name])
				out = append(out, modTarget{key: "G$ghost." + m.Name, sort: ghostSort(gty)})
			case m.Kind == SSel:
				// x.f
				x := env.eval(m.X)
				if _, isIface := x.T.Underlying().(*types.Interface); isIface {
					if g := vc.eng.ghostField(x.T, m.Name); g != nil {
						gty := env.resolveTypeIn(g)
						p := &VPtr{Kind: PCell, Base: env.scalar(x), Root: x.T}
						key, base := vc.ghostLoc(p, x.T, m.Name)
						out = append(out, modTarget{key: key, sort: SArr(SRef, ghostSort(gty)), idx: base})
						return
					}
				}
				bt, isPtr := derefType(x.T)
				if !isPtr {
					// package-level variable?
					env.fail("modifies target %s is not a field of a pointer", m.String())
				}
				st, ok := isStruct(bt)
				if !ok {
					env.fail("modifies target %s: not a struct", m.String())
				}
				p := asPtr(x.V, bt)
				path, ft := findField(st, m.Name)
				if path == nil {
					g := vc.eng.ghostField(bt, m.Name)
					if g == nil {
						// ghost field promoted through a struct embedded by value
						for i := 0; i < st.NumFields(); i++ {
							f := st.Field(i)
							if _, ok := isStruct(f.Type()); !ok || !f.Embedded() {
								continue
							}
							if pg := vc.eng.ghostField(f.Type(), m.Name); pg != nil {
								gty := env.resolveTypeIn(pg)
								key, base := vc.ghostLoc(p.extend(i), f.Type(), m.Name)
								out = append(out, modTarget{key: key, sort: SArr(SRef, ghostSort(gty)), idx: base})
								return
							}
						}
						env.fail("no field %s", m.Name)
					}
					gty := env.resolveTypeIn(g)
					key, base := vc.ghostLoc(p, bt, m.Name)
					out = append(out, modTarget{key: key, sort: SArr(SRef, ghostSort(gty)), idx: base})
					return
				}
				if len(path) != 1 {
					env.fail("modifies of promoted field %s: name the embedded field explicitly", m.Name)
				}
				q := p.extend(path[0])
				_, sub := subPath(q.Root, q.Path)
				kind := "F"
				fams := famKeysFor(kind, q.Root, sub, ft)
				for _, k := range sortedKeys(fams) {
					out = append(out, modTarget{key: k, sort: fams[k], idx: q.Base})
				}
			default:
				env.fail("unsupported modifies target %s", m.String())
			}
		}()
	}
	return out
}

func (vc *VC) havocTargets(st *State, ts []modTarget) {
	for _, t := range ts {
		arr := vc.famGet(st, t.key, t.sort)
		if t.idx == nil {
			vc.famHavoc(st, t.key, t.sort)
			continue
		}
		nv := vc.fresh("hv", t.sort.V)
		vc.famSet(st, t.key, mkStore(arr, t.idx, nv))
	}
}

// modTargetFams: coarse (family-level) footprint of a modifies expression, computed from types only.
func (e *Engine) modTargetFams(fn *ssa.Function, fc *FuncContract, m *SExpr) (fams map[string]*Sort, err error) {
	defer func() {
		if r := recover(); r != nil {
			err = fmt.Errorf("%v", r)
		}
	}()
	// evaluate in a throw-away VC with symbolic parameters
	vc := e.newVC(fn, fc)
	st := &State{heap: map[string]*Term{}, locals: map[*ssa.Alloc]Val{}, reach: tTrue}
	args, bind := vc.symbolicArgs(fn, st)
	env := vc.paramEnv(fn, fc, args, bind, st, st)
	fams = map[string]*Sort{}
	for _, t := range env.modTargets([]*SExpr{m}) {
		fams[t.key] = t.sort
	}
	return fams, nil
}

func (vc *VC) symbolicArgs(fn *ssa.Function, st *State) (args []Val, bind []Val) {
	sig := fn.Signature
	if sig.Recv() != nil {
		n := sig.Recv().Name()
		if n == "" || n == "_" {
			n = "recv"
		}
		args = append(args, vc.havocVal(st, sig.Recv().Type(), "p$"+n))
	}
	for i := 0; i < sig.Params().Len(); i++ {
		n := sig.Params().At(i).Name()
		if n == "" || n == "_" {
			n = fmt.Sprintf("arg%d", i)
		}
		args = append(args, vc.havocVal(st, sig.Params().At(i).Type(), "p$"+n))
	}
	for _, fv := range fn.FreeVars {
		r := vc.fresh("fv$"+fv.Name(), SRef)
		vc.assume(st, mkAnd(mkNeq(r, tNull), vc.allocatedIn(st, r)))
		bind = append(bind, &VS{r})
	}
	return
}

// contractCall: check requires, havoc footprint, assume ensures.
func (fr *Frame) contractCall(fn *ssa.Function, fc *FuncContract, args []Val, bind []Val, st *State, pos string) Val {
	vc := fr.vc
	short := shortFuncName(fn)
	env := vc.paramEnv(fn, fc, args, bind, st, st)
	for _, c := range fc.Requires {
		g := env.clause(c)
		props := c.Props
		if len(props) == 0 {
			props = fc.Props
		}
		vc.oblige(st, "requires", fr.name("pre."+short+"."+c.Name+"@"+shortPos(pos)), pos, "precondition of "+short+": "+c.Src, g, props)
		vc.assume(st, g)
	}
	pre := st.clone()
	if fc.HasMod || fc.Extern || fc.Pure {
		ts := env.modTargets(fc.Modifies)
		vc.suppressTouch = true
		vc.havocTargets(st, ts)
		vc.suppressTouch = false
		vc.framePreds(pre, st, ts)
		if !fc.Pure {
			vc.growAlloc(st)
		}
	} else {
		ws := vc.eng.funcWritesBody(fn)
		if ws.all {
			vc.havocAll(st)
		} else {
			vc.havocWriteSet(st, ws)
		}
	}
	if fc.Flags["clock"] != "" {
		vc.advanceClock(st)
	}
	sig := fn.Signature
	var results []Val
	for i := 0; i < sig.Results().Len(); i++ {
		results = append(results, vc.havocVal(st, sig.Results().At(i).Type(), "r$"+short))
	}
	post := vc.paramEnv(fn, fc, args, bind, st, pre)
	bindResults(post, sig, results)
	samePkg := vc.root != nil && fnPkgPath(vc.root) == fnPkgPath(fn)
	defer vc.withTag('E')()
	for _, c := range fc.Ensures {
		if c.Local && !samePkg {
			continue
		}
		if c.Internal {
			continue
		}
		if strings.HasPrefix(c.Name, "inv") {
			// invariant re-establishment: bulky, rarely needed by the next few steps (slicing tag 'V')
			untag := vc.withTag('V')
			vc.assume(st, post.clause(c))
			untag()
			continue
		}
		vc.assume(st, post.clause(c))
	}
	for _, c := range fc.Trusts {
		if strings.HasPrefix(c.Name, "inv") {
			// same slicing tag as a proved invariant clause, so that moving a clause between `ensures` and
			// `trusts` does not change the call-site queries
			untag := vc.withTag('V')
			vc.assume(st, post.clause(c))
			untag()
		} else {
			vc.assume(st, post.clause(c))
		}
		vc.note("trusted (unproved) postcondition assumed at call sites: " + shortFuncName(fn) + "#" + c.Name + ": " + c.Src)
	}
	if fc.Extern {
		vc.note("extern contract assumed: " + fc.Key)
	} else if fc.Trusted {
		vc.note("trusted contract (body not verified): " + fc.Key)
	}
	if fc.Flags["frame_assumed"] != "" {
		vc.note("footprint (modifies clause) assumed, not proved, for " + fc.Key)
	}
	return packResults(sig, results)
}

// ifaceEnv: spec environment of an (assumed) contract on an interface method; parameter names come from the header.
func (vc *VC) ifaceEnv(sig *types.Signature, recvT types.Type, pkg *types.Package, fc *FuncContract, args []Val, st, old *State) *SpecEnv {
	env := vc.newEnv(pkg, st, old)
	env.imports = map[string]string{}
	for k, v := range vc.eng.contracts.Imports[fc.File] {
		env.imports[k] = v
	}
	for k, v := range vc.eng.importsOf(pkg) {
		if _, ok := env.imports[k]; !ok {
			env.imports[k] = v
		}
	}
	typs := []types.Type{recvT}
	for i := 0; i < sig.Params().Len(); i++ {
		typs = append(typs, sig.Params().At(i).Type())
	}
	for i, n := range fc.ParamNames {
		if i < len(args) && i < len(typs) && n != "_" && n != "" {
			env.vars[n] = TV{args[i], typs[i]}
		}
	}
	return env
}

// ifaceContractCall: call of an interface method that carries an assumed abstract contract.
func (fr *Frame) ifaceContractCall(sig *types.Signature, recvT types.Type, method string, pkg *types.Package, fc *FuncContract, args []Val, st *State, pos string) Val {
	vc := fr.vc
	short := typeKey(recvT) + "." + method
	env := vc.ifaceEnv(sig, recvT, pkg, fc, args, st, st)
	for _, c := range fc.Requires {
		g := env.clause(c)
		props := c.Props
		if len(props) == 0 {
			props = fc.Props
		}
		vc.oblige(st, "requires", fr.name("pre."+short+"."+c.Name+"@"+shortPos(pos)), pos, "precondition of "+short+": "+c.Src, g, props)
		vc.assume(st, g)
	}
	pre := st.clone()
	ts := env.modTargets(fc.Modifies)
	vc.suppressTouch = true
	vc.havocTargets(st, ts)
	vc.suppressTouch = false
	vc.framePreds(pre, st, ts)
	if !fc.Pure {
		vc.growAlloc(st)
	}
	if fc.Flags["clock"] != "" {
		vc.advanceClock(st)
	}
	var results []Val
	for i := 0; i < sig.Results().Len(); i++ {
		results = append(results, vc.havocVal(st, sig.Results().At(i).Type(), "r$"+method))
	}
	post := vc.ifaceEnv(sig, recvT, pkg, fc, args, st, pre)
	bindResults(post, sig, results)
	defer vc.withTag('E')()
	for _, c := range fc.Ensures {
		vc.assume(st, post.clause(c))
	}
	vc.note("abstract interface contract assumed: " + fc.Key)
	return packResults(sig, results)
}

// funcWritesBody: syntactic write set of the body (ignoring the function's own contract).
func (e *Engine) funcWritesBody(fn *ssa.Function) *writeSet {
	if w, ok := e.bodyWriteCache[fn]; ok {
		return w
	}
	ws := newWriteSet()
	if len(fn.Blocks) == 0 {
		ws.all = true
		return ws
	}
	for _, b := range fn.Blocks {
		for _, in := range b.Instrs {
			e.instrWrites(in, nil, ws, 1)
		}
	}
	e.bodyWriteCache[fn] = ws
	return ws
}

func shortFuncName(fn *ssa.Function) string {
	s := fn.String()
	// strip package paths
	out := ""
	for {
		i := strings.Index(s, "/")
		if i < 0 {
			break
		}
		// find start of path segment
		j := i
		for j > 0 && (isIdentChar(s[j-1]) || s[j-1] == '.' || s[j-1] == '-') {
			j--
		}
		out += s[:j]
		s = s[i+1:]
	}
	return out + s
}

func isIdentChar(c byte) bool {
	return c >= 'a' && c <= 'z' || c >= 'A' && c <= 'Z' || c >= '0' && c <= '9' || c == '_'
}

func (e *Engine) newVC(fn *ssa.Function, fc *FuncContract) *VC {
	vc := &VC{eng: e, root: fn, fc: fc, famSort: map[string]*Sort{}, strLits: map[string]string{}, notes: map[string]bool{}, sites: map[string]int{}, sentUse: map[string]bool{}}
	if fc != nil {
		vc.props = fc.Props
	}
	return vc
}

// verifyFunc generates all obligations for fn under contract fc (fc may be nil for sweeps).
func (e *Engine) verifyFunc(fn *ssa.Function, fc *FuncContract, sweepProps []string) (vc *VC) {
	// pass 1 finds out which abstract (opaque) functions the VC mentions; pass 2 maintains frames only for those
	first := e.verifyFuncPass(fn, fc, sweepProps, nil)
	if first.failed != "" || len(first.usedPreds) == len(first.preds) {
		return first
	}
	return e.verifyFuncPass(fn, fc, sweepProps, first.usedPreds)
}

func (e *Engine) verifyFuncPass(fn *ssa.Function, fc *FuncContract, sweepProps []string, only map[string]bool) (vc *VC) {
	vc = e.newVC(fn, fc)
	vc.onlyPreds = only
	vc.usedPreds = map[string]bool{}
	if fc == nil {
		vc.props = sweepProps
	} else if len(vc.props) == 0 {
		vc.props = sweepProps
	}
	defer func() {
		if r := recover(); r != nil {
			if u, ok := r.(unsupportedErr); ok {
				vc.failed = string(u)
				return
			}
			panic(r)
		}
	}()
	st := &State{heap: map[string]*Term{}, locals: map[*ssa.Alloc]Val{}, reach: tTrue}
	args, bind := vc.symbolicArgs(fn, st)
	vc.assume(st, mkAnd(mkCmp(">", vc.nowOf(st), mkInt(0)), mkCmp("<=", vc.nowOf(st), mkBig(pow2(62)))))
	env := vc.paramEnv(fn, fc, args, bind, st, st)
	if fc != nil {
		untag := vc.withTag('R')
		for _, c := range fc.Requires {
			vc.tagName = c.Name
			vc.assume(st, env.clause(c))
			vc.tagName = ""
		}
		untag()
		if w := fc.Flags["wired"]; w != "" {
			depth := 1
			fmt.Sscanf(w, "%d", &depth)
			sig := fn.Signature
			n := 0
			if sig.Recv() != nil {
				vc.assumeWired(st, args[0], sig.Recv().Type(), depth, map[string]bool{})
				n = 1
			}
			// interface- and pointer-typed parameters (conn) are non-nil as well
			for i := 0; i < sig.Params().Len(); i++ {
				pt := sig.Params().At(i).Type()
				if _, ok := pt.Underlying().(*types.Interface); ok {
					vc.assume(st, mkNeq(scalarOf(args[n+i], pt), tNull))
				}
			}
			vc.note("wiring assumption: pointer, interface, map, chan and func fields reachable from the receiver of " + fn.String() + " (depth " + w + ") and interface parameters are non-nil")
		}
	}
	vc.entry = st.clone()
	// vacuity: preconditions satisfiable
	vc.obligs = append(vc.obligs, &Oblig{ID: vc.oname("cover.requires"), Kind: "cover", Func: fn.String(), Props: vc.props, Desc: "preconditions and type assumptions are satisfiable",
		Reach: tTrue, Goal: tFalse, NAssume: len(vc.assumes), vc: vc})
	res := vc.execFunc(fn, args, bind, st, 0, "", true)
	if res == nil {
		return vc
	}
	if fc == nil {
		return vc
	}
	// postconditions are checked at every return separately (no case split over merged exits); with many
	// returns the merged exit state is used instead
	type exitPoint struct {
		st      *State
		results []Val
		suffix  string
		block   *ssa.BasicBlock
	}
	hasInternal := false
	for _, c := range fc.Ensures {
		hasInternal = hasInternal || c.Internal
	}
	var points []exitPoint
	if (len(res.exits) > 1 && len(res.exits) <= 12) || (hasInternal && len(res.exits) >= 1) {
		for i, e := range res.exits {
			points = append(points, exitPoint{e.st, e.results, fmt.Sprintf("@ret%d", i+1), e.block})
		}
	} else {
		points = []exitPoint{{res.st, res.results, "", nil}}
	}
	for _, pt := range points {
		res.fr.exitBlock = pt.block
		vc.exitObligations(fn, fc, args, bind, pt.st, pt.results, pt.suffix, res.fr)
	}
	for _, ac := range fc.AtCalls {
		if vc.atCallSeen[ac.Clause.Name] == 0 {
			// vacuity guard: an atcall clause must meet one call site at least
			panic(unsupported("atcall clause #" + ac.Clause.Name + " matches no call site (callee pattern " + ac.Pat.String() + ")"))
		}
	}
	for _, c := range fc.Ensures {
		if c.Internal && vc.internalSeen[c.Name] == 0 {
			// vacuity guard: an internal clause must be checked at one exit at least
			panic(unsupported("internal clause #" + c.Name + " applies at no exit (a local it mentions is never in scope at a return)"))
		}
	}
	return vc
}

func (vc *VC) exitObligations(fn *ssa.Function, fc *FuncContract, args, bind []Val, st *State, results []Val, suffix string, fr *Frame) {
	res := &execResult{st: st, results: results}
	{
		// ghost updates (performed at exit)
		for _, g := range fc.Ghost {
			genv := vc.paramEnv(fn, fc, args, bind, res.st, vc.entry)
			bindResults(genv, fn.Signature, res.results)
			func() {
				defer func() {
					if r := recover(); r != nil {
						if se, ok := r.(specErr); ok {
							panic(unsupported(fmt.Sprintf("ghost assignment %q (%s:%d): %s", g.Src, shortPos(g.File), g.Line, string(se))))
						}
						panic(r)
					}
				}()
				if g.Target.Kind == SIdent {
					// ghost global
					gv := vc.eng.contracts.GhostVars[g.Target.Name]
					if gv == nil {
						genv.fail("target is not a ghost variable")
					}
					res.st.heap["G$ghost."+g.Target.Name] = genv.scalar(genv.eval(g.Value))
					vc.famSort["G$ghost."+g.Target.Name] = ghostSort(genv.resolveTypeIn(gv))
					return
				}
				x := genv.eval(g.Target.X)
				bt, isPtr := derefType(x.T)
				gf := vc.eng.ghostField(bt, g.Target.Name)
				if !isPtr || gf == nil {
					genv.fail("target is not a ghost field of a pointer")
				}
				gty := genv.resolveTypeIn(gf)
				val := genv.scalar(genv.eval(g.Value))
				vc.storeGhost(res.st, asPtr(x.V, bt), bt, g.Target.Name, gty, val)
			}()
		}
		post := vc.paramEnv(fn, fc, args, bind, res.st, vc.entry)
		bindResults(post, fn.Signature, res.results)
		for _, c := range fc.Ensures {
			cenv := post
			if c.Internal {
				ie := *post
				ie.fr = fr
				ie.atExit = true
				cenv = &ie
			}
			var g *Term
			if c.Internal {
				applies := func() (ok bool) {
					defer func() {
						if r := recover(); r != nil {
							if _, unset := r.(unsetLocal); unset {
								ok = false
								return
							}
							panic(r)
						}
					}()
					g = cenv.clause(c)
					return true
				}()
				if vc.internalSeen == nil {
					vc.internalSeen = map[string]int{}
				}
				if !applies {
					vc.internalSeen[c.Name] += 0
					continue
				}
				vc.internalSeen[c.Name]++
			} else {
				g = cenv.clause(c)
			}
			vc.curHasUses, vc.curUses = c.HasUses, c.Uses
			vc.oblige(res.st, "ensures", vc.oname(c.Name+suffix), vc.pos(fn.Pos()), "postcondition: "+c.Src, g, c.Props)
			vc.curHasUses, vc.curUses = false, nil
			// later postconditions may use earlier ones as lemmas (each is still proved on its own)
			untag := vc.withTag('L')
			vc.assume(res.st, g)
			untag()
		}
		if fc.HasMod && fc.Flags["frame_assumed"] != "" {
			// the footprint is an ASSUMPTION for this function (listed in the evidence), not a proved frame
			vc.note("footprint (modifies clause) assumed, not proved, for " + fn.String())
		} else if fc.HasMod {
			pre := vc.paramEnv(fn, fc, args, bind, vc.entry, vc.entry)
			vc.frameObligations(res.st, pre.modTargets(fc.Modifies), suffix)
		}
	}
}

// assumeWired: v (of type t) is non-nil and so are the reference-typed fields reachable from it (depth levels
// of pointer hops). Structural "wiring" assumption for service receivers, listed in the ledger.
func (vc *VC) assumeWired(st *State, v Val, t types.Type, depth int, seen map[string]bool) {
	switch u := t.Underlying().(type) {
	case *types.Pointer:
		r := scalarOf(v, t)
		vc.assume(st, mkNeq(r, tNull))
		if depth <= 0 {
			return
		}
		et := u.Elem()
		if _, ok := isStruct(et); !ok {
			return
		}
		if n, ok := et.(*types.Named); ok && n.Obj().Pkg() != nil && !strings.HasPrefix(n.Obj().Pkg().Path(), vc.eng.modPath) {
			return // foreign struct: contents not inspected
		}
		k := typeKey(et)
		if seen[k] {
			return
		}
		seen[k] = true
		vc.wiredFields(st, asPtr(v, et), et, depth-1, seen)
		delete(seen, k)
	case *types.Interface, *types.Map, *types.Chan, *types.Signature:
		vc.assume(st, mkNeq(scalarOf(v, t), tNull))
	}
}

// wiredFields loads only the reference-typed fields of the struct at p (nested struct values included).
func (vc *VC) wiredFields(st *State, p *VPtr, t types.Type, depth int, seen map[string]bool) {
	u, ok := isStruct(t)
	if !ok {
		return
	}
	if n, ok := t.(*types.Named); ok && n.Obj().Pkg() != nil && !strings.HasPrefix(n.Obj().Pkg().Path(), vc.eng.modPath) {
		return
	}
	for i := 0; i < u.NumFields(); i++ {
		ft := u.Field(i).Type()
		switch ft.Underlying().(type) {
		case *types.Struct:
			vc.wiredFields(st, p.extend(i), ft, depth, seen)
		case *types.Pointer, *types.Interface, *types.Map, *types.Chan, *types.Signature:
			fv := vc.loadPtr(st, p.extend(i), ft)
			vc.assumeWired(st, fv, ft, depth, seen)
		}
	}
}

func (vc *VC) frameObligations(fin *State, ts []modTarget, suffix string) {
	for _, k := range sortedKeys(fin.heap) {
		if strings.HasPrefix(k, "$") || strings.HasPrefix(k, "P$") {
			continue // clock / ghost families of abstract functions are derived state
		}
		cur := fin.heap[k]
		srt := vc.famSort[k]
		init := vc.entry.heap[k]
		if init == nil {
			init = mkVar("H$"+k, srt)
		}
		if termEq(cur, init) {
			continue
		}
		whole := false
		var idxs []*Term
		for _, t := range ts {
			if t.key == k {
				if t.idx == nil {
					whole = true
				} else {
					idxs = append(idxs, t.idx)
				}
			}
		}
		if whole {
			continue
		}
		var goal *Term
		if strings.HasPrefix(k, "G$") {
			goal = mkEq(cur, init)
		} else {
			r := mkVar("r!", SRef)
			conds := []*Term{vc.allocatedIn(vc.entry, r)}
			for _, i := range idxs {
				conds = append(conds, mkNeq(r, i))
			}
			goal = mkForall([]*Term{r}, mkImplies(mkAnd(conds...), mkEq(mkSelect(cur, r), mkSelect(init, r))), []*Term{mkSelect(cur, r)})
		}
		vc.oblige(fin, "frame", vc.oname("frame."+sanitize(k)+suffix), vc.pos(vc.root.Pos()), "only the declared footprint is modified (family "+k+")", goal, nil)
	}
}
