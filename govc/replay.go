package main

// Replay of counterexamples on the real code. Each family turns the solver's model (where it fixes the
// function's input) or a small model-guided candidate set into an in-package Go test that is injected with
// `go test -overlay` (nothing is written to /repo) and evaluates the violated clause on the real function.

import (
	"encoding/json"
	"fmt"
	"go/constant"
	"os"
	"os/exec"
	"path/filepath"
	"regexp"
	"sort"
	"strconv"
	"strings"
	"time"

	"golang.org/x/tools/go/ssa"
)

func tryReplay(r *Run, o *Oblig, rep *Replay) {
	fn := o.vc.root
	defer func() {
		if rec := recover(); rec != nil {
			rep.Note = fmt.Sprintf("replay harness failed: %v", rec)
		}
	}()
	name := fn.String()
	switch {
	case strings.HasPrefix(name, r.e.modPath+"/internal/protocol.Parse") || name == r.e.modPath+"/internal/protocol.errWrongNumber":
		replayParser(r, o, rep)
	}
}

var reModelInt = regexp.MustCompile(`\(define-fun \|?([^ |]+)\|? \(\) Int\s+(\(- )?(\d+)\)?\)`)

func modelInts(model string) map[string]int64 {
	out := map[string]int64{}
	for _, m := range reModelInt.FindAllStringSubmatch(model, -1) {
		v, err := strconv.ParseInt(m[3], 10, 64)
		if err != nil {
			continue
		}
		if m[2] != "" {
			v = -v
		}
		out[m[1]] = v
	}
	return out
}

func stringLits(fn *ssa.Function) []string {
	seen := map[string]bool{}
	var out []string
	for _, b := range fn.Blocks {
		for _, in := range b.Instrs {
			for _, op := range in.Operands(nil) {
				if c, ok := (*op).(*ssa.Const); ok && c.Value != nil && c.Value.Kind() == constant.String {
					s := constant.StringVal(c.Value)
					if !seen[s] && len(s) > 0 && len(s) < 16 && !strings.Contains(s, " ") {
						seen[s] = true
						out = append(out, s)
					}
				}
			}
		}
	}
	sort.Strings(out)
	return out
}

// replayParser: argument vectors for protocol parsers. The model gives the argument count at entry and/or at the
// loop head (the rest of the vector at an arbitrary iteration); candidates are built from those counts and the
// option literals of the function, and every candidate is run against the real parser under recover + watchdog.
func replayParser(r *Run, o *Oblig, rep *Replay) {
	fn := o.vc.root
	ints := modelInts(o.Model)
	var lens []int
	addLen := func(n int64) {
		if n >= 0 && n <= 12 {
			for _, x := range lens {
				if x == int(n) {
					return
				}
			}
			lens = append(lens, int(n))
		}
	}
	var suffixLens []int
	for k, v := range ints {
		if strings.Contains(k, "Args_len") || strings.HasPrefix(k, "p$args_len") {
			addLen(v)
		}
		if strings.HasPrefix(k, "lh$") && strings.Contains(k, "_len") && v >= 0 && v <= 6 {
			suffixLens = append(suffixLens, int(v))
		}
	}
	for n := 1; n <= 8; n++ {
		addLen(int64(n))
	}
	toks := append(stringLits(fn), "1", "x", "")
	var cands [][]string
	seen := map[string]bool{}
	add := func(c []string) {
		k := strings.Join(c, "\x00")
		if !seen[k] && len(cands) < 4000 {
			seen[k] = true
			cands = append(cands, c)
		}
	}
	fill := func(n int) []string {
		c := make([]string, n)
		for i := range c {
			c[i] = "1"
		}
		if n > 0 {
			c[0] = "cmd"
		}
		return c
	}
	for _, n := range lens {
		add(fill(n))
	}
	// prefix of k plain arguments followed by one or two option tokens
	for k := 1; k <= 6; k++ {
		for _, a := range toks {
			add(append(fill(k), a))
			for _, b := range toks {
				add(append(fill(k), a, b))
			}
		}
	}
	_ = suffixLens
	isErrWrong := strings.HasSuffix(fn.String(), ".errWrongNumber")
	var sb strings.Builder
	sb.WriteString("package protocol\n\nimport (\n\t\"fmt\"\n\t\"testing\"\n\t\"time\"\n\n\t\"github.com/tidwall/redcon\"\n)\n\nvar _ = redcon.Command{}\n\n")
	sb.WriteString("func TestVerifReplay(t *testing.T) {\n\tcands := [][]string{\n")
	for _, c := range cands {
		sb.WriteString("\t\t{")
		for i, s := range c {
			if i > 0 {
				sb.WriteString(", ")
			}
			sb.WriteString(strconv.Quote(s))
		}
		sb.WriteString("},\n")
	}
	sb.WriteString("\t}\n\tfor _, c := range cands {\n\t\targs := make([][]byte, len(c))\n\t\tfor i := range c {\n\t\t\targs[i] = []byte(c[i])\n\t\t}\n")
	sb.WriteString("\t\tdone := make(chan string, 1)\n\t\tgo func() {\n\t\t\tdefer func() {\n\t\t\t\tif r := recover(); r != nil {\n\t\t\t\t\tdone <- fmt.Sprint(\"panic: \", r)\n\t\t\t\t}\n\t\t\t}()\n")
	if isErrWrong {
		sb.WriteString("\t\t\tif err := errWrongNumber(args); err == nil {\n\t\t\t\tdone <- \"nil error\"\n\t\t\t\treturn\n\t\t\t}\n")
	} else {
		fmt.Fprintf(&sb, "\t\t\tres, err := %s(redcon.Command{Args: args})\n\t\t\tif err == nil && res == nil {\n\t\t\t\tdone <- \"nil result without error\"\n\t\t\t\treturn\n\t\t\t}\n", fn.Name())
	}
	sb.WriteString("\t\t\tdone <- \"\"\n\t\t}()\n\t\tselect {\n\t\tcase r := <-done:\n\t\t\tif r != \"\" {\n\t\t\t\tfmt.Printf(\"REPRODUCED args=%q: %s\\n\", c, r)\n\t\t\t\treturn\n\t\t\t}\n")
	sb.WriteString("\t\tcase <-time.After(700 * time.Millisecond):\n\t\t\tfmt.Printf(\"REPRODUCED args=%q: does not return (watchdog 700ms)\\n\", c)\n\t\t\treturn\n\t\t}\n\t}\n\tfmt.Println(\"NOT-REPRODUCED\")\n}\n")
	out, ok := runOverlayTest(r, "internal/protocol", "zz_verif_replay_test.go", sb.String(), "TestVerifReplay")
	rep.Test = "in-package test of " + fn.Name() + " over " + strconv.Itoa(len(cands)) + " argument vectors (model-guided lengths " + fmt.Sprint(lens[:minInt(len(lens), 4)]) + ", option literals of the function, prefix <= 6, suffix <= 2)"
	rep.TestOutput = tail(out, 1500)
	if ok {
		for _, l := range strings.Split(out, "\n") {
			if strings.HasPrefix(l, "REPRODUCED") {
				rep.Reproduced = true
				rep.Inputs = l
				rep.Note = "failing input found and confirmed on the real code"
			}
		}
	}
}

func minInt(a, b int) int {
	if a < b {
		return a
	}
	return b
}

func tail(s string, n int) string {
	if len(s) > n {
		return s[len(s)-n:]
	}
	return s
}

// runOverlayTest injects a test file into a package of /repo through -overlay and runs it.
func runOverlayTest(r *Run, pkgDir, fileName, src, runPat string) (string, bool) {
	dir, err := os.MkdirTemp("", "govc-replay-")
	if err != nil {
		return err.Error(), false
	}
	defer os.RemoveAll(dir)
	tf := filepath.Join(dir, fileName)
	if err := os.WriteFile(tf, []byte(src), 0o644); err != nil {
		return err.Error(), false
	}
	ov := map[string]map[string]string{"Replace": {filepath.Join(r.e.repoDir, pkgDir, fileName): tf}}
	data, _ := json.Marshal(ov)
	ovf := filepath.Join(dir, "ov.json")
	os.WriteFile(ovf, data, 0o644)
	cmd := exec.Command("go", "test", "-overlay", ovf, "-vet=off", "-v", "-count=1", "-timeout", "60s", "-run", "^"+runPat+"$", "./"+pkgDir)
	cmd.Dir = r.e.repoDir
	cmd.Env = append(os.Environ(), "GOFLAGS=-mod=mod", "GOPROXY=off", "GOSUMDB=off", "GOTOOLCHAIN=local", "GOCACHE="+filepath.Join(dir, "gocache"))
	// reuse the default build cache when available (faster); fall back to the scratch one
	if home, err := os.UserCacheDir(); err == nil {
		cmd.Env = append(cmd.Env, "GOCACHE="+filepath.Join(home, "go-build"))
	}
	done := make(chan struct{})
	var out []byte
	go func() {
		out, err = cmd.CombinedOutput()
		close(done)
	}()
	select {
	case <-done:
	case <-time.After(120 * time.Second):
		if cmd.Process != nil {
			cmd.Process.Kill()
		}
		return "replay timed out", false
	}
	return string(out), true
}
