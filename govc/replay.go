package main

// Replay of counterexamples on the real code (filled in per obligation family).

func tryReplay(r *Run, o *Oblig, rep *Replay) {
}
