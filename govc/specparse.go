package main

// Parser for the contract expression language (Gobra-flavoured Go expressions).

import (
	"fmt"
	"strings"
	"unicode"
)

type SKind int

const (
	SIdent SKind = iota
	SIntLit
	SStrLit
	SSel    // X.Name
	SIndex  // X[A]
	SSlice  // X[A:B] (A or B may be nil)
	SCall   // X(Args)
	SUnary  // Op X
	SBinary // X Op Y
	SQuant  // Op in {forall, exists}; Vars; X body
	SFloatLit
)

type SVar struct {
	Name string
	Type *SType
}

type SType struct {
	Kind string // name, ptr, slice, map
	Pkg  string
	Name string
	Elem *SType
	Key  *SType
}

func (t *SType) String() string {
	switch t.Kind {
	case "ptr":
		return "*" + t.Elem.String()
	case "slice":
		return "[]" + t.Elem.String()
	case "map":
		return "map[" + t.Key.String() + "]" + t.Elem.String()
	case "set", "arr":
		return t.Kind + "[" + t.Elem.String() + "]"
	}
	if t.Pkg != "" {
		return t.Pkg + "." + t.Name
	}
	return t.Name
}

type SExpr struct {
	Kind SKind
	Name string // ident, selector name, literal text
	Op   string
	X, Y *SExpr
	A, B *SExpr
	Args []*SExpr
	Vars []SVar
	Pats [][]*SExpr
	Pos  int
}

func (e *SExpr) String() string {
	if e == nil {
		return ""
	}
	switch e.Kind {
	case SIdent, SIntLit, SFloatLit:
		return e.Name
	case SStrLit:
		return fmt.Sprintf("%q", e.Name)
	case SSel:
		return e.X.String() + "." + e.Name
	case SIndex:
		return e.X.String() + "[" + e.A.String() + "]"
	case SSlice:
		return e.X.String() + "[" + e.A.String() + ":" + e.B.String() + "]"
	case SCall:
		var as []string
		for _, a := range e.Args {
			as = append(as, a.String())
		}
		return e.X.String() + "(" + strings.Join(as, ", ") + ")"
	case SUnary:
		return e.Op + e.X.String()
	case SBinary:
		return "(" + e.X.String() + " " + e.Op + " " + e.Y.String() + ")"
	case SQuant:
		var vs []string
		for _, v := range e.Vars {
			vs = append(vs, v.Name+" "+v.Type.String())
		}
		return "(" + e.Op + " " + strings.Join(vs, ", ") + " :: " + e.X.String() + ")"
	}
	return "?"
}

type stok struct {
	kind string // id int float str op eof
	text string
	pos  int
}

type sparser struct {
	toks []stok
	i    int
	src  string
}

func slex(src string) ([]stok, error) {
	var toks []stok
	i := 0
	for i < len(src) {
		c := src[i]
		if c == ' ' || c == '\t' || c == '\n' || c == '\r' {
			i++
			continue
		}
		start := i
		switch {
		case unicode.IsLetter(rune(c)) || c == '_' || c == '$':
			for i < len(src) && (unicode.IsLetter(rune(src[i])) || unicode.IsDigit(rune(src[i])) || src[i] == '_' || src[i] == '$') {
				i++
			}
			toks = append(toks, stok{"id", src[start:i], start})
		case c >= '0' && c <= '9':
			isFloat := false
			if c == '0' && i+1 < len(src) && (src[i+1] == 'x' || src[i+1] == 'X') {
				i += 2
				for i < len(src) && strings.ContainsRune("0123456789abcdefABCDEF_", rune(src[i])) {
					i++
				}
			} else {
				for i < len(src) && (src[i] >= '0' && src[i] <= '9' || src[i] == '_') {
					i++
				}
				if i+1 < len(src) && src[i] == '.' && src[i+1] >= '0' && src[i+1] <= '9' {
					isFloat = true
					i++
					for i < len(src) && src[i] >= '0' && src[i] <= '9' {
						i++
					}
				}
			}
			if isFloat {
				toks = append(toks, stok{"float", src[start:i], start})
			} else {
				toks = append(toks, stok{"int", strings.ReplaceAll(src[start:i], "_", ""), start})
			}
		case c == '"':
			i++
			var sb strings.Builder
			for i < len(src) && src[i] != '"' {
				if src[i] == '\\' && i+1 < len(src) {
					i++
					switch src[i] {
					case 'n':
						sb.WriteByte('\n')
					case 'r':
						sb.WriteByte('\r')
					case 't':
						sb.WriteByte('\t')
					default:
						sb.WriteByte(src[i])
					}
					i++
					continue
				}
				sb.WriteByte(src[i])
				i++
			}
			if i >= len(src) {
				return nil, fmt.Errorf("unterminated string at %d", start)
			}
			i++
			toks = append(toks, stok{"str", sb.String(), start})
		default:
			ops := []string{"<==>", "==>", "::", "==", "!=", "<=", ">=", "&&", "||", "<<", ">>", "+", "-", "*", "/", "%", "<", ">", "!", "(", ")", "[", "]", "{", "}", ",", ".", ":", "&", "|", "#"}
			found := false
			for _, op := range ops {
				if strings.HasPrefix(src[i:], op) {
					toks = append(toks, stok{"op", op, start})
					i += len(op)
					found = true
					break
				}
			}
			if !found {
				return nil, fmt.Errorf("unexpected character %q at %d in %q", c, i, src)
			}
		}
	}
	toks = append(toks, stok{"eof", "", len(src)})
	return toks, nil
}

func parseSpecExpr(src string) (e *SExpr, err error) {
	toks, err := slex(src)
	if err != nil {
		return nil, err
	}
	p := &sparser{toks: toks, src: src}
	defer func() {
		if r := recover(); r != nil {
			if pe, ok := r.(specParseErr); ok {
				err = fmt.Errorf("%s (in %q)", string(pe), src)
				return
			}
			panic(r)
		}
	}()
	e = p.expr()
	if p.peek().kind != "eof" {
		p.fail("unexpected token %q", p.peek().text)
	}
	return e, nil
}

type specParseErr string

func (p *sparser) fail(f string, a ...interface{}) {
	panic(specParseErr(fmt.Sprintf("spec parse error at %d: ", p.peek().pos) + fmt.Sprintf(f, a...)))
}
func (p *sparser) peek() stok { return p.toks[p.i] }
func (p *sparser) next() stok { t := p.toks[p.i]; p.i++; return t }
func (p *sparser) isOp(s string) bool {
	t := p.peek()
	return t.kind == "op" && t.text == s
}
func (p *sparser) isID(s string) bool {
	t := p.peek()
	return t.kind == "id" && t.text == s
}
func (p *sparser) expectOp(s string) {
	if !p.isOp(s) {
		p.fail("expected %q, got %q", s, p.peek().text)
	}
	p.next()
}

func (p *sparser) expr() *SExpr {
	if p.isID("forall") || p.isID("exists") {
		return p.quant()
	}
	return p.iff()
}

func (p *sparser) quant() *SExpr {
	op := p.next().text
	e := &SExpr{Kind: SQuant, Op: op}
	for {
		if p.peek().kind != "id" {
			p.fail("expected bound variable name")
		}
		name := p.next().text
		ty := p.typ()
		e.Vars = append(e.Vars, SVar{name, ty})
		if p.isOp(",") {
			p.next()
			continue
		}
		break
	}
	for p.isOp("{") {
		p.next()
		var pat []*SExpr
		for {
			pat = append(pat, p.iff())
			if p.isOp(",") {
				p.next()
				continue
			}
			break
		}
		p.expectOp("}")
		e.Pats = append(e.Pats, pat)
	}
	p.expectOp("::")
	e.X = p.expr()
	return e
}

func (p *sparser) typ() *SType {
	if p.isOp("*") {
		p.next()
		return &SType{Kind: "ptr", Elem: p.typ()}
	}
	if p.isOp("[") {
		p.next()
		p.expectOp("]")
		return &SType{Kind: "slice", Elem: p.typ()}
	}
	if p.isID("set") || p.isID("arr") {
		kind := p.next().text
		p.expectOp("[")
		el := p.typ()
		p.expectOp("]")
		return &SType{Kind: kind, Elem: el}
	}
	if p.isID("map") {
		p.next()
		p.expectOp("[")
		k := p.typ()
		p.expectOp("]")
		return &SType{Kind: "map", Key: k, Elem: p.typ()}
	}
	if p.peek().kind != "id" {
		p.fail("expected type")
	}
	n := p.next().text
	if p.isOp(".") {
		p.next()
		if p.peek().kind != "id" {
			p.fail("expected type name")
		}
		return &SType{Kind: "name", Pkg: n, Name: p.next().text}
	}
	return &SType{Kind: "name", Name: n}
}

func (p *sparser) iff() *SExpr {
	x := p.implies()
	for p.isOp("<==>") {
		p.next()
		y := p.implies()
		x = &SExpr{Kind: SBinary, Op: "<==>", X: x, Y: y}
	}
	return x
}

func (p *sparser) implies() *SExpr {
	x := p.or()
	if p.isOp("==>") {
		p.next()
		var y *SExpr
		if p.isID("forall") || p.isID("exists") {
			y = p.quant()
		} else {
			y = p.implies()
		}
		return &SExpr{Kind: SBinary, Op: "==>", X: x, Y: y}
	}
	return x
}

func (p *sparser) or() *SExpr {
	x := p.and()
	for p.isOp("||") {
		p.next()
		y := p.and()
		x = &SExpr{Kind: SBinary, Op: "||", X: x, Y: y}
	}
	return x
}

func (p *sparser) and() *SExpr {
	x := p.cmp()
	for p.isOp("&&") {
		p.next()
		var y *SExpr
		if p.isID("forall") || p.isID("exists") {
			y = p.quant()
		} else {
			y = p.cmp()
		}
		x = &SExpr{Kind: SBinary, Op: "&&", X: x, Y: y}
	}
	return x
}

func (p *sparser) cmp() *SExpr {
	x := p.add()
	for {
		t := p.peek()
		if t.kind == "op" && (t.text == "==" || t.text == "!=" || t.text == "<" || t.text == "<=" || t.text == ">" || t.text == ">=") {
			p.next()
			y := p.add()
			x = &SExpr{Kind: SBinary, Op: t.text, X: x, Y: y}
			continue
		}
		if t.kind == "id" && t.text == "in" {
			p.next()
			y := p.add()
			x = &SExpr{Kind: SBinary, Op: "in", X: x, Y: y}
			continue
		}
		return x
	}
}

func (p *sparser) add() *SExpr {
	x := p.mul()
	for p.isOp("+") || p.isOp("-") {
		op := p.next().text
		y := p.mul()
		x = &SExpr{Kind: SBinary, Op: op, X: x, Y: y}
	}
	return x
}

func (p *sparser) mul() *SExpr {
	x := p.unary()
	for p.isOp("*") || p.isOp("/") || p.isOp("%") {
		op := p.next().text
		y := p.unary()
		x = &SExpr{Kind: SBinary, Op: op, X: x, Y: y}
	}
	return x
}

func (p *sparser) unary() *SExpr {
	if p.isOp("!") || p.isOp("-") {
		op := p.next().text
		x := p.unary()
		return &SExpr{Kind: SUnary, Op: op, X: x}
	}
	return p.postfix()
}

func (p *sparser) postfix() *SExpr {
	x := p.primary()
	for {
		switch {
		case p.isOp("."):
			p.next()
			t := p.next()
			if t.kind != "id" && t.kind != "int" {
				p.fail("expected selector name")
			}
			x = &SExpr{Kind: SSel, X: x, Name: t.text}
		case p.isOp("["):
			p.next()
			var a, b *SExpr
			if !p.isOp(":") {
				a = p.expr()
			}
			if p.isOp(":") {
				p.next()
				if !p.isOp("]") {
					b = p.expr()
				}
				p.expectOp("]")
				x = &SExpr{Kind: SSlice, X: x, A: a, B: b}
			} else {
				p.expectOp("]")
				x = &SExpr{Kind: SIndex, X: x, A: a}
			}
		case p.isOp("("):
			p.next()
			var args []*SExpr
			for !p.isOp(")") {
				args = append(args, p.expr())
				if p.isOp(",") {
					p.next()
				} else {
					break
				}
			}
			p.expectOp(")")
			x = &SExpr{Kind: SCall, X: x, Args: args}
		default:
			return x
		}
	}
}

func (p *sparser) primary() *SExpr {
	t := p.next()
	switch t.kind {
	case "id":
		return &SExpr{Kind: SIdent, Name: t.text, Pos: t.pos}
	case "int":
		return &SExpr{Kind: SIntLit, Name: t.text}
	case "float":
		return &SExpr{Kind: SFloatLit, Name: t.text}
	case "str":
		return &SExpr{Kind: SStrLit, Name: t.text}
	case "op":
		if t.text == "(" {
			e := p.expr()
			p.expectOp(")")
			return e
		}
	}
	p.i--
	p.fail("unexpected token %q", t.text)
	return nil
}
